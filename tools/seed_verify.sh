#!/bin/bash
# seed_verify.sh <worktree> <seed dir> <demo destination relative to worktree> <cargo package> [props...]
# Confirms a seeded change: clean tree -> demo passes; with patch -> builds, existing suite passes,
# demo fails. Then runs the given property checks against the patched worktree (VERIF_REPO) and
# reports their exit codes. Leaves the worktree clean.
set -u
VERIF=$(cd "$(dirname "$0")/.." && pwd)
WT=$1; SEED=$2; DEMO=$3; PKG=$4; shift 4
export CARGO_TARGET_DIR=${SEED_TARGET_DIR:-$WT/target} CARGO_NET_OFFLINE=true
cd $WT && git checkout -q -- . && rm -f $DEMO
name=$(basename $DEMO .rs)
cp $SEED/demo.rs $DEMO
echo "== clean: demo"; cargo test -p $PKG --offline --test $name 2>&1 | grep -E "^test result|error" | head -3
git apply $SEED/patch.diff || { echo "PATCH DOES NOT APPLY"; exit 1; }
echo "== patched: demo"; cargo test -p $PKG --offline --test $name 2>&1 | grep -E "^test result|^error(\[|:)" | head -3
rm -f $DEMO
echo "== patched: existing suite"; cargo test --workspace --no-fail-fast --offline 2>&1 | grep -E "^test result" | awk '{p+=$4; f+=$6} END {print "passed",p,"failed",f}'
for p in "$@"; do
  echo "== check $p against patched tree"; (cd $VERIF && VERIF_REPO=$WT ./check $p 2>&1 | grep -E "^VIOLATION|^UNDECIDED|^KNOWN|^\[" | cut -c1-400)
done
cd $WT && git checkout -q -- .
# remove the per-worktree build output of the verification tools (kani/bounded/replay crates and targets)
tag=$(python3 -c "import hashlib,sys;print(hashlib.sha1(sys.argv[1].encode()).hexdigest()[:8])" $WT)
rm -rf $VERIF/build/*_$tag
