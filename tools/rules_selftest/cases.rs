// Sample functions exercising the semantic rewrite rules R2, R4, R14, R17, R18, R19, R21, R22. `rules_selftest.py`
// compiles this file twice -- as written, and after the rules were applied by tools/rules.py -- and compares
// the output of the two programs.
pub struct Acc { pub v: Vec<u32>, pub total: u32 }
pub trait Sink { fn put(&mut self, x: u32); }
impl Sink for Acc { fn put(&mut self, x: u32) { self.v.push(x); self.total += x; } }
pub struct Wrap<T>(pub T);

impl Acc {
    // R17: `mut self`
    pub fn with(mut self, x: u32) -> Self {
        self.v.push(x);
        self.total += x;
        self
    }
    // R17 + R18: `mut self` and `for .. in &mut self.v`
    pub fn doubled(mut self) -> Vec<u32> {
        for x in &mut self.v {
            if *x % 2 == 1 { *x *= 2; } else { *x += 1; }
        }
        self.total = 0;
        self.v
    }
    // R19: Option::map with a closure that mutates captured state
    pub fn pop_and_count(&mut self) -> Option<u32> {
        self.v.pop().map(|c| match c {
            0 => { self.total += 100; 0 }
            n => { self.total -= n.min(self.total); n + 1 }
        })
    }
}
// R2: impl Trait in argument position (inside a generic wrapper), R14: `_` parameter
pub fn feed(sink: &mut Wrap<impl Sink>, _: u8, n: u32) {
    let mut i = 0;
    while i < n { sink.0.put(i * 3); i += 1; }
    // R4
    debug_assert_eq!(i, n);
}
// R18 on a local vector of tuples
pub fn bump(pairs: &mut Wrap<Vec<(u32, String)>>) {
    for (n, s) in &mut pairs.0 { *n += s.len() as u32; s.push('!'); }
}
pub fn bump2(mut pairs: Vec<(u32, String)>) -> Vec<(u32, String)> {
    for p in &mut pairs { p.0 += 1; }
    pairs
}
// R21: `&dyn Trait` in argument position (recursion through the trait object, like the cycle search)
pub trait Node { fn id(&self) -> u32; fn walk<'a>(&'a self, seen: &mut Vec<u32>); }
pub struct Leaf(pub u32);
pub struct Pair(pub u32, pub Leaf, pub Leaf);
impl Node for Leaf { fn id(&self) -> u32 { self.0 } fn walk<'a>(&'a self, _seen: &mut Vec<u32>) {} }
impl Node for Pair { fn id(&self) -> u32 { self.0 } fn walk<'a>(&'a self, seen: &mut Vec<u32>) { enter(&self.1, seen); enter(&self.2, seen); } }
pub fn enter<'a>(node: &'a dyn Node, seen: &mut Vec<u32>) {
    if seen.contains(&node.id()) { return; }
    seen.push(node.id());
    node.walk(seen);
}
// R22: by-value `for` over a Vec with `continue`
pub struct Item { pub n: u32, pub tags: Vec<u32> }
impl Item { pub fn weight(&self) -> u32 { self.n * 2 } }
pub fn tally(items: Vec<Item>) -> u32 {
    let mut total = 0;
    for item in items {
        let w = match item.n % 3 { 0 => continue, 1 => item.weight(), _ => item.n };
        total += w;
        for t in &item.tags { if *t == 0 { continue; } total += t; }
    }
    total
}
fn main() {
    println!("{}", tally(vec![Item { n: 3, tags: vec![9] }, Item { n: 4, tags: vec![0, 2] }, Item { n: 5, tags: vec![] }]));
    let mut seen = vec![];
    enter(&Pair(1, Leaf(2), Leaf(2)), &mut seen);
    enter(&Leaf(7), &mut seen);
    println!("{:?}", seen);
    let a = Acc { v: vec![], total: 0 }.with(3).with(4).with(9);
    println!("{:?} {}", a.v, a.total);
    let mut w = Wrap(Acc { v: vec![1, 0, 7], total: 8 });
    feed(&mut w, 0, 4);
    println!("{:?} {}", w.0.v, w.0.total);
    let mut b = w.0;
    while let Some(x) = b.pop_and_count() { print!("{x}/{} ", b.total); }
    println!("| {:?}", b.pop_and_count());
    println!("{:?}", a.doubled());
    let mut ps = Wrap(vec![(1, "ab".to_owned()), (5, String::new())]);
    bump(&mut ps);
    println!("{:?}", bump2(ps.0));
}
