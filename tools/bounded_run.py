#!/usr/bin/env python3
"""bounded_run -- build the bounded stand-in binary against a repository path and run one check."""
import hashlib
import json
import os
import shutil
import subprocess
import sys
import time

VERIF = os.path.dirname(os.path.dirname(os.path.abspath(__file__)))


def build(repo="/repo"):
    tag = "" if repo == "/repo" else "_" + hashlib.sha1(repo.encode()).hexdigest()[:8]
    d = os.path.join(VERIF, "build", "bounded_crate" + tag)
    os.makedirs(os.path.join(d, "src"), exist_ok=True)
    open(os.path.join(d, "Cargo.toml"), "w").write(
        open(os.path.join(VERIF, "bounded", "Cargo.toml.in")).read().replace("@REPO@", repo))
    for f in os.listdir(os.path.join(VERIF, "bounded", "src")):
        txt = open(os.path.join(VERIF, "bounded", "src", f)).read().replace("@REPO@", repo)
        dst = os.path.join(d, "src", f)
        if not os.path.exists(dst) or open(dst).read() != txt:
            open(dst, "w").write(txt)
    # the text of `fn encode_generate_code_request` of <repo>/slicec/src/main.rs (a private fn of the binary
    # crate), extracted mechanically on every build; `oracle_request.rs` include!s it
    try:
        sys.path.insert(0, os.path.join(VERIF, "tools"))
        import rsx
        msrc = open(os.path.join(repo, "slicec", "src", "main.rs")).read()
        found = rsx.find_items(msrc, rsx.tokenize(msrc), "fn encode_generate_code_request")
        if len(found) != 1:
            return None, "encode_generate_code_request not found exactly once in slicec/src/main.rs"
        s0, e0, _, _ = found[0]
        ftxt = "// EXTRACTED from %s/slicec/src/main.rs -- do not edit\n%s\n" % (repo, msrc[s0:e0])
        dst = os.path.join(d, "src", "request_fn.rs")
        if not os.path.exists(dst) or open(dst).read() != ftxt:
            open(dst, "w").write(ftxt)
    except Exception as ex:  # noqa: BLE001
        return None, f"cannot extract encode_generate_code_request: {ex}"
    lock = os.path.join(repo, "Cargo.lock")
    if os.path.exists(lock) and not os.path.exists(os.path.join(d, "Cargo.lock")):
        shutil.copy(lock, os.path.join(d, "Cargo.lock"))
    # one shared target dir: the dependency graph (clap, lalrpop-util, serde...) is built once
    env = dict(os.environ, CARGO_NET_OFFLINE="true", CARGO_TARGET_DIR=os.path.join(VERIF, "build", "bounded_target" + tag))
    p = subprocess.run(["cargo", "build", "--offline", "--release", "-q"], cwd=d, env=env, capture_output=True, text=True)
    if p.returncode != 0:
        return None, p.stderr[-2500:]
    return os.path.join(env["CARGO_TARGET_DIR"], "release", "slicec-bounded"), ""


def build_slicec_bin(repo="/repo"):
    """the real `slicec` binary of the tree under test (stand-in `generators` runs it): built into the same target directory"""
    tag = "" if repo == "/repo" else "_" + hashlib.sha1(repo.encode()).hexdigest()[:8]
    env = dict(os.environ, CARGO_NET_OFFLINE="true", CARGO_TARGET_DIR=os.path.join(VERIF, "build", "bounded_target" + tag))
    p = subprocess.run(["cargo", "build", "--offline", "--release", "-q", "--manifest-path", os.path.join(repo, "Cargo.toml"), "-p", "slicec", "--bin", "slicec"],
                       env=env, capture_output=True, text=True)
    if p.returncode != 0:
        return None, p.stderr[-2500:]
    return os.path.join(env["CARGO_TARGET_DIR"], "release", "slicec"), ""


def run(check, repo="/repo", timeout=600, deep=False):
    t0 = time.time()
    exe, err = build(repo)
    if exe is None:
        return dict(check=check, status="undecided", why="bounded stand-in does not build against this tree: " + err[-600:], wall_s=round(time.time() - t0, 1))
    extra = {}
    if check == "generators":
        sb, err = build_slicec_bin(repo)
        if sb is None:
            return dict(check=check, status="undecided", why="the slicec binary does not build from this tree: " + err[-600:], wall_s=round(time.time() - t0, 1))
        extra["VERIF_SLICEC_BIN"] = sb
    scratch = os.path.join(VERIF, "build", "scratch")
    os.makedirs(scratch, exist_ok=True)
    def _limit():   # a changed tree that allocates without bound must end this run (-> undecided), not the machine
        import resource
        resource.setrlimit(resource.RLIMIT_AS, (24 << 30, 24 << 30))
    p = subprocess.run(["timeout", str(timeout), exe, check], capture_output=True, text=True, preexec_fn=_limit,
                       env=dict(os.environ, VERIF_SCRATCH=scratch, **extra, **({"VERIF_BOUNDED_DEEP": "1"} if deep else {})))
    cex, summary = [], None
    for ln in p.stdout.split("\n"):
        ln = ln.strip()
        if not ln.startswith("{"):
            continue
        try:
            j = json.loads(ln)
        except Exception:
            continue
        if "counterexample" in j:
            cex.append(j["counterexample"])
        if "summary" in j:
            summary = j["summary"]
    status = "violation" if cex else ("pass" if summary and p.returncode == 0 else "undecided")
    return dict(check=check, status=status, counterexamples=cex, summary=summary, rc=p.returncode,
                wall_s=round(time.time() - t0, 1), cmd=f"{exe} {check}",
                why=None if summary else (p.stderr[-400:] or "no summary (timeout?)"))


if __name__ == "__main__":
    r = run(sys.argv[1], os.environ.get("VERIF_REPO", "/repo"))
    print(json.dumps(r, indent=1)[:3000])
