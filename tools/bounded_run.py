#!/usr/bin/env python3
"""bounded_run -- build the bounded stand-in binary against a repository path and run one check."""
import hashlib
import json
import os
import shutil
import subprocess
import sys
import time

VERIF = os.path.dirname(os.path.dirname(os.path.abspath(__file__)))


def build(repo="/repo"):
    tag = "" if repo == "/repo" else "_" + hashlib.sha1(repo.encode()).hexdigest()[:8]
    d = os.path.join(VERIF, "build", "bounded_crate" + tag)
    os.makedirs(os.path.join(d, "src"), exist_ok=True)
    open(os.path.join(d, "Cargo.toml"), "w").write(
        open(os.path.join(VERIF, "bounded", "Cargo.toml.in")).read().replace("@REPO@", repo))
    for f in os.listdir(os.path.join(VERIF, "bounded", "src")):
        shutil.copy(os.path.join(VERIF, "bounded", "src", f), os.path.join(d, "src", f))
    lock = os.path.join(repo, "Cargo.lock")
    if os.path.exists(lock) and not os.path.exists(os.path.join(d, "Cargo.lock")):
        shutil.copy(lock, os.path.join(d, "Cargo.lock"))
    # one shared target dir: the dependency graph (clap, lalrpop-util, serde...) is built once
    env = dict(os.environ, CARGO_NET_OFFLINE="true", CARGO_TARGET_DIR=os.path.join(VERIF, "build", "bounded_target" + tag))
    p = subprocess.run(["cargo", "build", "--offline", "--release", "-q"], cwd=d, env=env, capture_output=True, text=True)
    if p.returncode != 0:
        return None, p.stderr[-2500:]
    return os.path.join(env["CARGO_TARGET_DIR"], "release", "slicec-bounded"), ""


def run(check, repo="/repo", timeout=600, deep=False):
    t0 = time.time()
    exe, err = build(repo)
    if exe is None:
        return dict(check=check, status="undecided", why="bounded stand-in does not build against this tree: " + err[-600:], wall_s=round(time.time() - t0, 1))
    scratch = os.path.join(VERIF, "build", "scratch")
    os.makedirs(scratch, exist_ok=True)
    p = subprocess.run(["timeout", str(timeout), exe, check], capture_output=True, text=True,
                       env=dict(os.environ, VERIF_SCRATCH=scratch, **({"VERIF_BOUNDED_DEEP": "1"} if deep else {})))
    cex, summary = [], None
    for ln in p.stdout.split("\n"):
        ln = ln.strip()
        if not ln.startswith("{"):
            continue
        try:
            j = json.loads(ln)
        except Exception:
            continue
        if "counterexample" in j:
            cex.append(j["counterexample"])
        if "summary" in j:
            summary = j["summary"]
    status = "violation" if cex else ("pass" if summary and p.returncode == 0 else "undecided")
    return dict(check=check, status=status, counterexamples=cex, summary=summary, rc=p.returncode,
                wall_s=round(time.time() - t0, 1), cmd=f"{exe} {check}",
                why=None if summary else (p.stderr[-400:] or "no summary (timeout?)"))


if __name__ == "__main__":
    r = run(sys.argv[1], os.environ.get("VERIF_REPO", "/repo"))
    print(json.dumps(r, indent=1)[:3000])
