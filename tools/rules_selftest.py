#!/usr/bin/env python3
"""rules_selftest -- the rewrite rules that change executable text beyond renaming (R2, R4, R14, R17, R18, R19, R21, R22)
are applied to tools/rules_selftest/cases.rs; the original and the rewritten program are compiled with rustc
and must print the same output. (The rules are also type-checked by Verus on every run; this checks that they
preserve BEHAVIOUR on code shaped like the code they are used on.)"""
import os
import re
import subprocess
import sys
import tempfile

sys.path.insert(0, os.path.dirname(os.path.abspath(__file__)))
import rsx
import rules

VERIF = os.path.dirname(os.path.dirname(os.path.abspath(__file__)))
src = open(os.path.join(VERIF, "tools", "rules_selftest", "cases.rs")).read()


def rewrite(text):
    """apply the rules item by item (impl items: member fns; fn items: the fn itself), like gen.build_item"""
    toks = rsx.tokenize(text)
    out, pos = [], 0
    headers = ["impl Acc", "pub fn feed", "pub fn bump", "pub fn bump2", "pub fn enter", "pub fn tally"]
    spans = []
    for h in headers:
        for (s, e, _, _) in rsx.find_items(text, toks, h):
            spans.append((s, e, h))
    spans.sort()
    for (s, e, h) in spans:
        if s < pos:
            continue
        out.append(text[pos:s])
        item = text[s:e]
        itoks = rsx.tokenize(item)
        fns = rsx.scan_fns(item, itoks, top_level=h.startswith("pub fn"))
        m = rules.mask(item)
        ed = rsx.Edits(item)
        rules.r2_apit(item, m, ed, fns, dyn_too=True)
        rules.r4_debug_assert_eq(item, m, ed)
        rules.r14_wild_params(item, m, ed, fns)
        renamed = rules.r17_mut_self(item, m, ed, fns)
        rules.r18_for_in_mut(item, m, ed, fns, renamed)
        rules.r22_for_by_value_continue(item, m, ed, fns)
        # R19 as gen.py does it for `@optmap \`self.v.pop().map(|c| \``
        head = "self.v.pop().map(|c| "
        if head in item:
            a = item.index(head)
            op = a + len("self.v.pop()") + len(".map")
            ot = next(k for k, t in enumerate(itoks) if t.s == op and t.text == "(")
            ct = rsx.match_close(itoks, ot)
            ed.edits = [x for x in ed.edits if not (a <= x[0] and x[1] <= a + len(head))]
            recv = "self.v.pop()" if not any(x <= a < y for (x, y) in renamed) else "self_.v.pop()"
            ed.add(a, a + len(head), f"match {recv} {{ None => None, Some(c) => Some(", "R19")
            ed.add(itoks[ct].e, itoks[ct].e, " }", "R19", prio=9)
        new, _ = ed.apply()
        out.append(new)
        pos = e
    out.append(text[pos:])
    return "".join(out), None


new, _ = rewrite(src)
applied = {r: len(re.findall(p, new)) for r, p in [("R17", r"let mut self_ = self;"), ("R18", r"r18_i\d+: usize"), ("R19", r"None => None, Some\(c\)"), ("R2", r"G0_: Sink"), ("R21", r"G0_: Node"), ("R22", r"r22_i\d+: usize"), ("R14", r"_p0"), ("R4", r"debug_assert!\(\(")]}
missing = [r for r, n in applied.items() if n == 0]
with tempfile.TemporaryDirectory(dir=os.path.join(VERIF, "build") if os.path.isdir(os.path.join(VERIF, "build")) else None) as d:
    outs = []
    for name, text in (("orig", src), ("rewritten", new)):
        p = os.path.join(d, name + ".rs")
        open(p, "w").write(text)
        c = subprocess.run(["rustc", "--edition", "2021", "-A", "warnings", "-o", os.path.join(d, name), p], capture_output=True, text=True)
        if c.returncode != 0:
            print(f"rules_selftest: {name} does not compile:\n{c.stderr[-2000:]}")
            sys.exit(1)
        outs.append(subprocess.run([os.path.join(d, name)], capture_output=True, text=True).stdout)
print("rules applied:", applied)
if missing:
    print("rules_selftest: rule(s) not exercised:", missing)
    sys.exit(1)
if outs[0] != outs[1]:
    print("rules_selftest: BEHAVIOUR DIFFERS\n--- original\n" + outs[0] + "--- rewritten\n" + outs[1])
    sys.exit(1)
print("rules_selftest: same output (%d lines)" % outs[0].count("\n"))
