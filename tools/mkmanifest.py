#!/usr/bin/env python3
"""Writes MANIFEST.json from tools/props.py (claimed properties) + the not-applicable table."""
import json
import os
import sys

sys.path.insert(0, os.path.dirname(os.path.abspath(__file__)))
from props import PROPS, NOT_APPLICABLE, MANIFEST_TEXT  # noqa: E402

VERIF = os.path.dirname(os.path.dirname(os.path.abspath(__file__)))
checks = []
for pid, cfg in PROPS.items():
    mt = MANIFEST_TEXT[pid]
    checks.append(dict(
        property_id=pid,
        quick_cmd=f"./check {pid} --tier quick",
        thorough_cmd=f"./check {pid} --tier thorough",
        evidence_file=f"/verif/evidence/{pid}.json",
        replay_cmd_template="./check " + pid + " --replay {path}",
        engine="verus+kani" if (cfg.get("kani_quick") or cfg.get("kani_thorough")) else "verus",
        level_claimed=dict(category="proof", text=mt["level"], design_ref=mt["design_ref"]),
        level_note=mt["note"],
        technique=mt["technique"],
    ))
import json as _j
ALL = [_j.loads(l)["id"] for l in open(os.path.join(VERIF, "properties.jsonl"))]
na = dict(NOT_APPLICABLE)
for pid in ALL:
    if pid not in PROPS and pid not in na:
        na[pid] = "check not built yet in this round (planned in DESIGN.md section 7); not claimed until its unit verifies"
NOT_APPLICABLE = {k: na[k] for k in ALL if k in na and k not in PROPS}
manifest = dict(
    version=1,
    setup_cmd="python3 tools/setup.py",
    hooks=dict(guard="none", enable="no hooks: Verus runs on text extracted from /repo on every run, Kani on the unmodified slice-codec crate as a path dependency",
               baseline_off_cmd="cd /repo && cargo test --workspace --no-fail-fast --offline",
               source_commits=[], add_only=True),
    engines=[
        dict(name="verus", path="/verif/tools/verus_run.py", serves_properties=sorted(PROPS),
             kind_free_text="contract-based deductive verification: contracts/*.vspec spliced into functions extracted mechanically from /repo (tools/rsx.py, tools/gen.py), discharged by Verus 0.2026.09.13 / Z3"),
        dict(name="kani", path="/verif/tools/kani_run.py", serves_properties=[p for p, c in PROPS.items() if c.get("kani_quick") or c.get("kani_thorough")],
             kind_free_text="harness-level function contracts (assume pre / call / assert post) on the unmodified slice-codec crate, Kani 0.68 / CBMC 6.11; k_* complete (loop-free, full domain), kb_* bounded stand-ins"),
    ],
    checks=checks,
    not_applicable=[dict(property_id=k, reason=v) for k, v in NOT_APPLICABLE.items()],
    notes="Exit 0 = all obligations discharged (known findings printed, not counted); 1 = VIOLATION of a named obligation; 2 = undecided (never an alarm). "
          "Repairs of genuine defects are `fix:` commits in /repo, recorded in known_findings.txt.",
)
json.dump(manifest, open(os.path.join(VERIF, "MANIFEST.json"), "w"), indent=1)
print("MANIFEST.json:", len(checks), "checks,", len(manifest["not_applicable"]), "not applicable")
