#!/usr/bin/env python3
"""mkshapes -- (by hand, on the tree the contracts were written for) records for every function that carries a
loop contract the sequence of its loop kinds: contracts/baseline_shapes.json. gen.py refuses (exit 2) to splice
loop contracts into a function whose loops were restructured."""
import glob
import json
import os
import sys

VERIF = os.path.dirname(os.path.dirname(os.path.abspath(__file__)))
sys.path.insert(0, os.path.join(VERIF, "tools"))
import gen  # noqa: E402

p = os.path.join(VERIF, "contracts", "baseline_shapes.json")
if os.path.exists(p):
    os.remove(p)
shapes = {}
for v in sorted(glob.glob(os.path.join(VERIF, "contracts", "*.vspec"))):
    if os.path.basename(v).startswith("part_"):
        continue
    g = gen.generate(v, False)
    shapes.update(g.loop_shapes)
json.dump(shapes, open(p, "w"), indent=1, sort_keys=True)
print(len(shapes), "functions with loop contracts")
