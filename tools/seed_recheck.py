#!/usr/bin/env python3
"""seed_recheck <seed id> [tier] -- re-run the property's check against a stored seeded change (tools/try_seed.sh) and record the
result in its meta.json; the result recorded before is kept under `earlier_results` (the honest history of what was first missed)."""
import json
import os
import re
import subprocess
import sys

VERIF = os.path.dirname(os.path.dirname(os.path.abspath(__file__)))
sid = sys.argv[1]
tier = sys.argv[2] if len(sys.argv) > 2 else "quick"
mp = os.path.join(VERIF, "seeded", sid, "meta.json")
meta = json.load(open(mp))
prop = meta["property"]
out = subprocess.run([os.path.join(VERIF, "tools", "try_seed.sh"), sid, prop, tier], capture_output=True, text=True).stdout
lines = [l[:400] for l in out.split("\n") if l.startswith(("VIOLATION", "UNDECIDED", "KNOWN", "[", "PATCH"))]
m = re.search(r"-> exit (\d)", " ".join(lines))
ex = int(m.group(1)) if m else None
new = dict(exit=ex, tier=tier, verdict={0: "MISSED (check passed)", 1: "DETECTED (VIOLATION)", 2: "UNDECIDED (exit 2, no alarm, not a pass)"}.get(ex, "?"), lines=lines[:8])
old = meta.get("checks", {}).get(prop)
if old and old.get("verdict") != new["verdict"]:
    meta.setdefault("earlier_results", []).append(old)
meta.setdefault("checks", {})[prop] = new
head = subprocess.run(["git", "-C", "/repo", "rev-parse", "--short", "HEAD"], capture_output=True, text=True).stdout.strip()
meta["checks_run_against"] = f"/repo HEAD ({head}) + patch.diff, via tools/try_seed.sh"
json.dump(meta, open(mp, "w"), indent=1)
print(sid, new["verdict"], "|", (old or {}).get("verdict"))
