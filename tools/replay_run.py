#!/usr/bin/env python3
"""replay_run -- build the replay binary against a repository path and run it on concrete inputs."""
import hashlib
import os
import shutil
import subprocess
import sys

VERIF = os.path.dirname(os.path.dirname(os.path.abspath(__file__)))


def build(repo="/repo"):
    tag = "" if repo == "/repo" else "_" + hashlib.sha1(repo.encode()).hexdigest()[:8]
    d = os.path.join(VERIF, "build", "replay_crate" + tag)
    os.makedirs(os.path.join(d, "src"), exist_ok=True)
    open(os.path.join(d, "Cargo.toml"), "w").write(
        open(os.path.join(VERIF, "replay", "Cargo.toml.in")).read().replace("@REPO@", repo))
    shutil.copy(os.path.join(VERIF, "replay", "src", "main.rs"), os.path.join(d, "src", "main.rs"))
    lock = os.path.join(repo, "Cargo.lock")
    if os.path.exists(lock) and not os.path.exists(os.path.join(d, "Cargo.lock")):
        shutil.copy(lock, os.path.join(d, "Cargo.lock"))
    env = dict(os.environ, CARGO_NET_OFFLINE="true", CARGO_TARGET_DIR=os.path.join(VERIF, "build", "replay_target" + tag))
    p = subprocess.run(["cargo", "build", "--offline", "--release", "-q"], cwd=d, env=env, capture_output=True, text=True)
    if p.returncode != 0:
        raise RuntimeError("replay build failed: " + p.stderr[-2000:])
    return os.path.join(env["CARGO_TARGET_DIR"], "release", "slicec-replay")


def decode(ty, hexbytes, repo="/repo", timeout=20):
    exe = build(repo)
    p = subprocess.run(["timeout", str(timeout), exe, "decode", ty, hexbytes], capture_output=True, text=True)
    return (p.stdout + p.stderr).strip(), p.returncode


if __name__ == "__main__":
    out, rc = decode(sys.argv[1], sys.argv[2], os.environ.get("VERIF_REPO", "/repo"))
    print(out)
