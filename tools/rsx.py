#!/usr/bin/env python3
"""rsx -- text-preserving Rust item extractor, mini macro_rules expander and rewrite-rule engine.

Nothing here parses Rust fully: it tokenises (comments, string / raw-string / char literals vs
lifetimes, identifiers, punctuation), matches brackets, and copies source spans byte for byte.
All modifications are expressed as *edits* (start, end, replacement, rule-id) on the extracted
text; they are applied in one pass and logged, so the evidence can say for every function which
rules touched it and whether its body is byte-identical to the repository's.
"""
import hashlib
import re
import sys


class RsxError(Exception):
    """Extraction cannot represent something: the unit stops with exit 2 (never a verdict)."""


# ------------------------------------------------------------------------------------------------
# Tokenizer
# ------------------------------------------------------------------------------------------------
IDENT_START = set("abcdefghijklmnopqrstuvwxyzABCDEFGHIJKLMNOPQRSTUVWXYZ_")
IDENT_CONT = IDENT_START | set("0123456789")


class Tok:
    __slots__ = ("kind", "s", "e", "text")

    def __init__(self, kind, s, e, text):
        self.kind, self.s, self.e, self.text = kind, s, e, text

    def __repr__(self):
        return f"{self.kind}:{self.text!r}@{self.s}"


def tokenize(src):
    """Returns the list of *significant* tokens (no whitespace, no comments)."""
    toks = []
    i, n = 0, len(src)
    while i < n:
        c = src[i]
        if c in " \t\r\n":
            i += 1
            continue
        if src.startswith("//", i):
            j = src.find("\n", i)
            j = n if j < 0 else j
            i = j
            continue
        if src.startswith("/*", i):
            depth, j = 1, i + 2
            while j < n and depth:
                if src.startswith("/*", j):
                    depth += 1
                    j += 2
                elif src.startswith("*/", j):
                    depth -= 1
                    j += 2
                else:
                    j += 1
            i = j
            continue
        # raw strings / byte strings
        m = re.compile(r'b?r(#*)"').match(src, i)
        if m:
            hashes = m.group(1)
            close = '"' + hashes
            j = src.find(close, m.end())
            if j < 0:
                raise RsxError("unterminated raw string")
            j += len(close)
            toks.append(Tok("str", i, j, src[i:j]))
            i = j
            continue
        if c == '"' or (c == "b" and src.startswith('b"', i)):
            j = i + (2 if c == "b" else 1)
            while j < n and src[j] != '"':
                j += 2 if src[j] == "\\" else 1
            j += 1
            toks.append(Tok("str", i, j, src[i:j]))
            i = j
            continue
        if c == "'":
            # char literal or lifetime
            if i + 1 < n and src[i + 1] == "\\":
                j = i + 2
                while j < n and src[j] != "'":
                    j += 1
                j += 1
                toks.append(Tok("char", i, j, src[i:j]))
                i = j
                continue
            if i + 2 < n and src[i + 2] == "'":
                toks.append(Tok("char", i, i + 3, src[i:i + 3]))
                i += 3
                continue
            # multi-byte char literal such as 'é' (python str => one code point) handled above;
            # otherwise a lifetime
            j = i + 1
            while j < n and src[j] in IDENT_CONT:
                j += 1
            toks.append(Tok("life", i, j, src[i:j]))
            i = j
            continue
        if c in IDENT_START:
            j = i + 1
            while j < n and src[j] in IDENT_CONT:
                j += 1
            toks.append(Tok("id", i, j, src[i:j]))
            i = j
            continue
        if c.isdigit():
            j = i + 1
            while j < n and (src[j] in IDENT_CONT or (src[j] == "." and j + 1 < n and src[j + 1].isdigit())):
                j += 1
            toks.append(Tok("num", i, j, src[i:j]))
            i = j
            continue
        toks.append(Tok("p", i, i + 1, c))
        i += 1
    return toks


OPEN = {"(": ")", "[": "]", "{": "}"}
CLOSE = {")", "]", "}"}


def match_close(toks, k):
    """toks[k] is an opening bracket; returns index of its matching close."""
    depth = 0
    for j in range(k, len(toks)):
        t = toks[j]
        if t.kind == "p":
            if t.text in OPEN:
                depth += 1
            elif t.text in CLOSE:
                depth -= 1
                if depth == 0:
                    return j
    raise RsxError("unbalanced brackets")


def item_end(toks, k):
    """From token index k (inside an item header) find the token index that ends the item: the
    first ';' at depth 0, or the '}' matching the first '{' at depth 0."""
    depth = 0
    j = k
    while j < len(toks):
        t = toks[j]
        if t.kind == "p":
            if t.text == "{" and depth == 0:
                return match_close(toks, j)
            if t.text in OPEN:
                depth += 1
            elif t.text in CLOSE:
                depth -= 1
                if depth < 0:
                    raise RsxError("item end not found")
            elif t.text == ";" and depth == 0:
                return j
        j += 1
    raise RsxError("item end not found")


def header_tokens(header):
    return [t.text for t in tokenize(header)]


PREFIX_WORDS = {"pub", "unsafe", "async", "const", "default", "extern"}


def item_start(src, toks, k):
    """Walk back from header token k over visibility / qualifiers / attributes; returns
    (token index of first token, byte offset of start incl. preceding doc comments)."""
    j = k
    while j > 0:
        p = toks[j - 1]
        if p.kind == "id" and p.text in PREFIX_WORDS:
            j -= 1
            continue
        if p.kind == "str" and j >= 2 and toks[j - 2].text == "extern":
            j -= 1
            continue
        if p.kind == "p" and p.text == ")":
            # pub(crate) / pub(super) / pub(in path)
            d, q = 0, j - 1
            while q >= 0:
                if toks[q].text == ")":
                    d += 1
                elif toks[q].text == "(":
                    d -= 1
                    if d == 0:
                        break
                q -= 1
            if q >= 1 and toks[q - 1].text == "pub":
                j = q - 1
                continue
            break
        if p.kind == "p" and p.text == "]":
            d, q = 0, j - 1
            while q >= 0:
                if toks[q].text == "]":
                    d += 1
                elif toks[q].text == "[":
                    d -= 1
                    if d == 0:
                        break
                q -= 1
            if q >= 1 and toks[q - 1].text == "#":
                j = q - 1
                continue
            if q >= 2 and toks[q - 1].text == "!" and toks[q - 2].text == "#":
                break
            break
        break
    start = toks[j].s
    # include directly preceding doc-comment / comment lines (contiguous, only whitespace between)
    prev_end = toks[j - 1].e if j > 0 else 0
    gap = src[prev_end:start]
    # keep only the trailing run of lines in the gap that are comments
    lines = gap.split("\n")
    keep = 0
    for ln in reversed(lines[:-1] if lines else []):
        if ln.strip().startswith("//"):
            keep += 1
        else:
            break
    if keep:
        off = sum(len(l) + 1 for l in lines[:len(lines) - 1 - keep])
        start = prev_end + off
    else:
        # start at beginning of the line's indentation
        ls = src.rfind("\n", 0, start) + 1
        if src[ls:start].strip() == "":
            start = max(ls, prev_end)
    return j, start


ITEM_KEYWORDS = {"impl", "struct", "enum", "trait", "fn", "type", "const", "static", "mod", "use",
                 "macro_rules", "union"}


def find_items(src, toks, header):
    """All (start_byte, end_byte, header_tok_index, end_tok_index) of items whose header token
    sequence equals `header` (token-wise) starting at an item keyword."""
    want = header_tokens(header)
    # the header may start with qualifiers (pub ...) - strip them for matching
    while len(want) > 1 and want[0] in PREFIX_WORDS and not (want[0] == "const" and want[1] not in ("fn", "unsafe")):
        want = want[1:]
    if not want or want[0] not in ITEM_KEYWORDS:
        raise RsxError(f"header must start with an item keyword: {header!r}")
    out = []
    n = len(want)
    for k in range(len(toks) - n + 1):
        if toks[k].text != want[0] or toks[k].kind != "id":
            continue
        if any(toks[k + d].text != want[d] for d in range(n)):
            continue
        # the token following the header must not continue a path/identifier of the same entity
        nxt = toks[k + n] if k + n < len(toks) else None
        if nxt is not None and nxt.kind == "p" and nxt.text == ":" and k + n + 1 < len(toks) \
                and toks[k + n + 1].text == ":" and toks[k + n + 1].s == nxt.e:
            continue  # `impl Foo` must not match `impl Foo::Bar`
        # previous token must end an item / open a block / be an attribute or qualifier
        if k > 0:
            p = toks[k - 1]
            ok = (p.kind == "p" and p.text in "};{])") or (p.kind == "id" and p.text in PREFIX_WORDS) \
                or p.kind == "str"
            if not ok:
                continue
        e = item_end(toks, k + n)
        j, start = item_start(src, toks, k)
        out.append((start, toks[e].e, k, e))
    return out


# ------------------------------------------------------------------------------------------------
# Edits
# ------------------------------------------------------------------------------------------------
class Edits:
    """A set of non-overlapping replacements and insertions on one text, applied in one pass."""

    def __init__(self, text):
        self.text = text
        self.edits = []  # (s, e, repl, rule, prio)

    def add(self, s, e, repl, rule, prio=0):
        for (s2, e2, _, r2, _) in self.edits:
            if s == e and s2 == e2:
                continue
            if s == e:
                bad = s2 < s < e2
            elif s2 == e2:
                bad = s < s2 < e
            else:
                bad = s < e2 and s2 < e
            if bad:
                raise RsxError(f"conflicting rewrites {rule} / {r2} at offset {s}: "
                               f"{self.text[s:e]!r} vs {self.text[s2:e2]!r}")
        self.edits.append((s, e, repl, rule, prio))

    def apply(self):
        eds = sorted(self.edits, key=lambda x: (x[0], x[1] - x[0] != 0, x[4]))
        out, pos = [], 0
        for (s, e, repl, _, _) in eds:
            out.append(self.text[pos:s])
            out.append(repl)
            pos = max(pos, e)
        out.append(self.text[pos:])
        return "".join(out), None

    def counts(self):
        c = {}
        for (_, _, _, r, _) in self.edits:
            c[r] = c.get(r, 0) + 1
        return c


# ------------------------------------------------------------------------------------------------
# Mini macro_rules expander (rule R3)
# ------------------------------------------------------------------------------------------------
class MacroDef:
    def __init__(self, name, arms):
        self.name, self.arms = name, arms  # arms: list of (pattern_tokens_src, body_src)


def load_macro(src, name):
    toks = tokenize(src)
    for k in range(len(toks) - 3):
        if toks[k].text == "macro_rules" and toks[k + 1].text == "!" and toks[k + 2].text == name:
            ob = k + 3
            if toks[ob].text not in OPEN:
                raise RsxError(f"macro {name}: unexpected shape")
            cb = match_close(toks, ob)
            arms = []
            j = ob + 1
            while j < cb:
                if toks[j].text not in OPEN:
                    raise RsxError(f"macro {name}: arm pattern must be bracketed")
                pe = match_close(toks, j)
                pat = src[toks[j].e:toks[pe].s]
                if not (toks[pe + 1].text == "=" and toks[pe + 2].text == ">"):
                    raise RsxError(f"macro {name}: expected =>")
                bs = pe + 3
                be = match_close(toks, bs)
                body = src[toks[bs].e:toks[be].s]
                arms.append((pat, body))
                j = be + 1
                if j < cb and toks[j].text == ";":
                    j += 1
            return MacroDef(name, arms)
    raise RsxError(f"macro_rules! {name} not found")


def _split_top(src, sep=","):
    """Split src at top-level separators (not inside brackets / strings / generics <>)."""
    toks = tokenize(src)
    parts, depth, angle, last = [], 0, 0, 0
    for t in toks:
        if t.kind == "p":
            if t.text in OPEN:
                depth += 1
            elif t.text in CLOSE:
                depth -= 1
            elif t.text == "<":
                angle += 1
            elif t.text == ">" and angle > 0:
                angle -= 1
            elif t.text == sep and depth == 0 and angle == 0:
                parts.append(src[last:t.s])
                last = t.e
    tail = src[last:]
    if tail.strip() or parts:
        parts.append(tail)
    return [p.strip() for p in parts]


def expand_macro(mdef, args_src):
    """Supports arms whose pattern is a comma-separated list of `$name:frag` metavariables,
    optionally followed by ONE comma-separated repetition `$( $name:frag ),*` (or `+`), with an
    optional trailing `$(,)?` -- the only shapes slicec's own macros use. Anything else raises
    RsxError (exit 2)."""
    args = _split_top(args_src)
    if args and args[-1] == "":
        args = args[:-1]
    for pat, body in mdef.arms:
        p = re.sub(r"\$\(\s*,\s*\)\s*\?\s*$", "", pat.strip()).strip()
        rep_name = None
        m = re.match(r"^(?P<fixed>(?:\s*\$\w+\s*:\s*\w+\s*,)*)\s*\$\(\s*\$(?P<rep>\w+)\s*:\s*\w+\s*\)\s*,\s*[\*\+]\s*$", p)
        m2 = re.match(r"^(?P<fixed>(?:\s*\$\w+\s*:\s*\w+\s*,?)*?)\s*\$\(\s*,\s*\$(?P<rep>\w+)\s*:\s*\w+\s*\)\s*[\*\+]\s*$", p)
        if m:
            rep_name = m.group("rep")
            fixed = [x for x in _split_top(m.group("fixed")) if x]
        elif m2:
            # `$a:ty $(, $x:ident)*` : leading-comma repetition
            rep_name = m2.group("rep")
            fixed = [x for x in _split_top(m2.group("fixed")) if x]
        else:
            fixed = [x for x in _split_top(p) if x]
        names = []
        ok = True
        for fp in fixed:
            mm = re.fullmatch(r"\$(\w+)\s*:\s*(\w+)", fp)
            if not mm:
                ok = False
                break
            names.append(mm.group(1))
        if not ok:
            continue
        if rep_name is None and len(args) != len(names):
            continue
        if rep_name is not None and len(args) < len(names):
            continue
        binds = dict(zip(names, args[:len(names)]))
        out = body
        if rep_name is not None:
            out = _expand_repetitions(out, rep_name, args[len(names):])
        for k, v in sorted(binds.items(), key=lambda kv: -len(kv[0])):
            out = re.sub(r"\$" + k + r"\b", lambda _m, v=v: v, out)
        out = re.sub(r"\$crate\b", "crate", out)
        if "$" in re.sub(r'"(?:[^"\\\\]|\\\\.)*"', "", out):
            raise RsxError(f"macro {mdef.name}: unexpanded metavariable remains (unsupported shape)")
        return out
    raise RsxError(f"macro {mdef.name}: no arm matches arguments {args_src!r}")


def _expand_repetitions(body, name, vals):
    out, i = [], 0
    while True:
        j = body.find("$(", i)
        if j < 0:
            out.append(body[i:])
            break
        out.append(body[i:j])
        # find matching paren
        d, k = 0, j + 1
        while k < len(body):
            if body[k] == "(":
                d += 1
            elif body[k] == ")":
                d -= 1
                if d == 0:
                    break
            k += 1
        inner = body[j + 2:k]
        m = re.match(r"\s*([^\*\+\s]?)\s*[\*\+]", body[k + 1:])
        if not m:
            raise RsxError("macro repetition: unsupported shape")
        sep = m.group(1)
        out.append((sep + "\n").join(re.sub(r"\$" + name + r"\b", lambda _m, v=v: v, inner) for v in vals))
        i = k + 1 + m.end()
    return "".join(out)


def expand_invocations(src, macros, log):
    """Replace every invocation `name!{...}` / `name!(...);` of the given MacroDefs in src by its
    expansion, repeatedly (expansions may invoke other macros of the set)."""
    for _round in range(8):
        toks = tokenize(src)
        ed = Edits(src)
        hit = False
        # spans of macro_rules! definitions: invocations inside a macro body are templates
        defs = []
        for q in range(len(toks) - 3):
            if toks[q].text == "macro_rules" and toks[q + 1].text == "!" and toks[q + 3].text in OPEN:
                defs.append((toks[q].s, toks[match_close(toks, q + 3)].e))
        k = 0
        while k < len(toks) - 2:
            t = toks[k]
            if any(a <= t.s < b for (a, b) in defs):
                k += 1
                continue
            if t.kind == "id" and t.text in macros and toks[k + 1].text == "!" and toks[k + 2].text in OPEN \
                    and not (k >= 2 and toks[k - 1].text == "!" and toks[k - 2].text == "macro_rules"):
                ob = k + 2
                cb = match_close(toks, ob)
                args = src[toks[ob].e:toks[cb].s]
                exp = expand_macro(macros[t.text], args)
                e = toks[cb].e
                if cb + 1 < len(toks) and toks[cb + 1].text == ";":
                    e = toks[cb + 1].e
                s = t.s
                # drop a path prefix like `crate::` / `$crate::`
                ed.add(s, e, exp, "R3")
                log.append(("R3", t.text, " ".join(args.split())[:80]))
                hit = True
                k = cb + 1
                continue
            k += 1
        if not hit:
            return src
        src, _ = ed.apply()
    raise RsxError("macro expansion did not reach a fixed point")


# ------------------------------------------------------------------------------------------------
# Function-level structure of an extracted item
# ------------------------------------------------------------------------------------------------
class FnInfo:
    def __init__(self):
        self.name = None
        self.s = self.e = 0          # span in item text (incl. attrs/docs)
        self.fn_tok = 0
        self.sig_end = 0             # offset of '{' of the body or ';'
        self.has_body = False
        self.body_s = self.body_e = 0  # offsets of '{' and after '}'
        self.ret_s = self.ret_e = None  # span of the return type text (after '->')
        self.params_close = 0        # offset just after ')' of the parameter list
        self.generics = None         # (s, e) of <...> after the name or None
        self.name_e = 0
        self.where_s = None          # offset of 'where' keyword or None


def scan_fns(text, toks=None, top_level=False):
    """Find fn members of an impl/trait item (depth 1) or the fn itself when the item is a fn."""
    toks = toks or tokenize(text)
    fns = []
    depth = 0
    want_depth = 0 if top_level else 1
    k = 0
    while k < len(toks):
        t = toks[k]
        if t.kind == "p":
            if t.text in OPEN:
                depth += 1
            elif t.text in CLOSE:
                depth -= 1
        if t.kind == "id" and t.text == "fn" and depth == want_depth and k + 1 < len(toks) \
                and toks[k + 1].kind == "id":
            f = FnInfo()
            f.fn_tok = k
            f.name = toks[k + 1].text
            f.name_e = toks[k + 1].e
            j = k + 2
            if toks[j].text == "<":
                # generics: match angle brackets (no shifts in generic lists here)
                d, q = 0, j
                while q < len(toks):
                    if toks[q].text == "<":
                        d += 1
                    elif toks[q].text == ">" and toks[q - 1].text != "-":
                        d -= 1
                        if d == 0:
                            break
                    q += 1
                f.generics = (toks[j].s, toks[q].e)
                j = q + 1
            if toks[j].text != "(":
                raise RsxError(f"fn {f.name}: parameter list not found")
            pc = match_close(toks, j)
            f.params_open = toks[j].s
            f.params_close = toks[pc].e
            j = pc + 1
            if j + 1 < len(toks) and toks[j].text == "-" and toks[j + 1].text == ">":
                f.ret_s = toks[j + 2].s
                # return type extends to 'where' / '{' / ';' at depth 0
                d, q = 0, j + 2
                while q < len(toks):
                    tt = toks[q]
                    if tt.kind == "p" and tt.text in OPEN and not (tt.text == "{" and d == 0):
                        d += 1
                    elif tt.kind == "p" and tt.text in CLOSE:
                        d -= 1
                    if d == 0 and ((tt.kind == "p" and tt.text in "{;") or (tt.kind == "id" and tt.text == "where")):
                        break
                    q += 1
                f.ret_e = toks[q - 1].e
                j = q
            if toks[j].kind == "id" and toks[j].text == "where":
                f.where_s = toks[j].s
                d, q = 0, j
                while q < len(toks):
                    tt = toks[q]
                    if tt.kind == "p" and tt.text in "([":
                        d += 1
                    elif tt.kind == "p" and tt.text in ")]":
                        d -= 1
                    if d == 0 and tt.kind == "p" and tt.text in "{;":
                        break
                    q += 1
                j = q
            if toks[j].text == "{":
                cb = match_close(toks, j)
                f.has_body = True
                f.sig_end = toks[j].s
                f.body_s, f.body_e = toks[j].s, toks[cb].e
                endtok = cb
            elif toks[j].text == ";":
                f.sig_end = toks[j].s
                endtok = j
            else:
                raise RsxError(f"fn {f.name}: body or ';' not found (got {toks[j].text!r})")
            _, f.s = item_start(text, toks, k)
            f.e = toks[endtok].e
            f.tok_range = (k, endtok)
            fns.append(f)
            k = endtok + 1
            continue
        k += 1
    return fns


def loops_in(text, toks, lo, hi):
    """Loop keyword tokens (for/while/loop) between token indices lo..hi in source order, each
    with the offset of its body '{'. Returns list of (kw_tok_index, body_brace_offset, kw)."""
    out = []
    k = lo
    while k <= hi:
        t = toks[k]
        if t.kind == "id" and t.text in ("for", "while", "loop"):
            # `for` in `impl X for Y` / HRTB `for<'a>` cannot occur inside fn bodies we handle
            if t.text == "for" and toks[k + 1].text == "<":
                k += 1
                continue
            d, q = 0, k + 1
            while q <= hi:
                tt = toks[q]
                if tt.kind == "p":
                    if tt.text == "{" and d == 0:
                        break
                    if tt.text in OPEN:
                        d += 1
                    elif tt.text in CLOSE:
                        d -= 1
                q += 1
            out.append((k, toks[q].s, t.text))
        k += 1
    return out


def sha(s):
    return hashlib.sha256(s.encode()).hexdigest()[:16]


if __name__ == "__main__":
    src = open(sys.argv[1]).read()
    toks = tokenize(src)
    for (s, e, k, ek) in find_items(src, toks, sys.argv[2]):
        print(src[s:e])
        print("-----")
