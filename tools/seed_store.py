#!/usr/bin/env python3
"""seed_store -- copy a confirmed seeded change from an agent worktree into /verif/seeded/<id>/ and
(re)run the confirmation + the property checks against it, recording everything in meta.json.

usage: seed_store.py <PROP> <a|b> <cargo package> <demo destination> [extra props to run...]
"""
import json
import os
import re
import shutil
import subprocess
import sys

VERIF = os.path.dirname(os.path.dirname(os.path.abspath(__file__)))
prop, sub, pkg, demo_dst = sys.argv[1:5]
props = [prop] + sys.argv[5:]
wt = f"/tmp/wt_{prop}"
src = f"{wt}/SEED/{sub}"
dst = os.path.join(VERIF, "seeded", f"{prop}-{sub}")
os.makedirs(dst, exist_ok=True)
for f in os.listdir(src):
    if f.endswith((".diff", ".rs", ".sh", ".md")):
        shutil.copy(os.path.join(src, f), os.path.join(dst, f))
out = subprocess.run([os.path.join(VERIF, "tools", "seed_verify.sh"), wt, src, demo_dst, pkg, *props],
                     capture_output=True, text=True).stdout
lines = [l for l in out.split("\n") if l.strip()]


def section(name):
    got, on = [], False
    for l in lines:
        if l.startswith("== "):
            on = l.startswith("== " + name)
            continue
        if on:
            got.append(l)
    return got


clean = " ".join(section("clean: demo"))
patched = " ".join(section("patched: demo"))
suite = " ".join(section("patched: existing suite"))
checks = {}
for p in props:
    sec = section(f"check {p} against patched tree")
    m = re.search(r"-> exit (\d)", " ".join(sec))
    checks[p] = dict(exit=int(m.group(1)) if m else None,
                     verdict={0: "MISSED (check passed)", 1: "DETECTED (VIOLATION)", 2: "UNDECIDED (exit 2, no alarm, not a pass)"}.get(int(m.group(1)) if m else -1, "?"),
                     lines=[l[:400] for l in sec if l.startswith(("VIOLATION", "UNDECIDED", "KNOWN", "["))][:8])
notes = open(os.path.join(src, "notes.md")).read() if os.path.exists(os.path.join(src, "notes.md")) else ""
meta = dict(
    id=f"{prop}-{sub}", property=prop,
    origin="written by an independent sub-agent given only the property text and its own worktree of /repo",
    needs_to_manifest=(re.search(r"(?is)(circumstance|input needed|what it takes|needs?)[^\n]*\n(.{0,600})", notes).group(0)[:700] if re.search(r"(?is)(circumstance|input needed|what it takes|needs?)", notes) else "see notes.md"),
    confirmed_by_me=dict(
        worktree=wt, commands=f"tools/seed_verify.sh {wt} {src} {demo_dst} {pkg} {' '.join(props)}",
        clean_tree_demo=clean[:300], patched_demo=patched[:300], patched_existing_suite=suite[:200],
        ok=("ok." in clean and ("FAILED" in patched or "failed" in patched) and "failed 0" in suite)),
    checks=checks,
)
json.dump(meta, open(os.path.join(dst, "meta.json"), "w"), indent=1)
print(json.dumps({k: meta[k] for k in ("id", "checks")}, indent=1)[:900])
print("confirmed:", meta["confirmed_by_me"]["ok"])
