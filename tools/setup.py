#!/usr/bin/env python3
"""setup -- offline, from files on disk only: checks the tools are present and pre-builds the Kani
harness crate and the replay binary so that the first check does not pay for compilation."""
import os
import shutil
import subprocess
import sys

VERIF = os.path.dirname(os.path.dirname(os.path.abspath(__file__)))
sys.path.insert(0, os.path.join(VERIF, "tools"))
ok = True
for tool in ("verus", "cargo", "cargo-kani", "cbmc"):
    if shutil.which(tool) is None:
        print("missing tool:", tool)
        ok = False
os.makedirs(os.path.join(VERIF, "build"), exist_ok=True)
os.makedirs(os.path.join(VERIF, "evidence"), exist_ok=True)
try:
    import kani_run
    kani_run.prepare("/repo")
    import replay_run
    replay_run.build("/repo")
    print("replay binary built")
except Exception as ex:  # not fatal: checks rebuild what they need
    print("setup warning:", ex)
# behaviour-preservation self-test of the semantic rewrite rules (R2 R4 R14 R17 R18 R19)
r = subprocess.run([sys.executable, os.path.join(VERIF, "tools", "rules_selftest.py")], capture_output=True, text=True)
print((r.stdout.strip().split("\n") or ["rules_selftest: no output"])[-1])
if r.returncode != 0:
    print("setup: REWRITE RULE SELF-TEST FAILED -- extraction cannot be trusted:\n" + r.stdout[-1500:])
    ok = False
try:
    import bounded_run
    exe, err = bounded_run.build("/repo")
    print("bounded stand-ins built" if exe else "setup warning: bounded stand-ins do not build: " + err[-300:])
    sb, err = bounded_run.build_slicec_bin("/repo")
    print("slicec binary (stand-in `generators`) built" if sb else "setup warning: the slicec binary does not build: " + err[-300:])
except Exception as ex:
    print("setup warning:", ex)
p = subprocess.run(["verus", "--version"], capture_output=True, text=True)
print(p.stdout.strip().split("\n")[1] if p.returncode == 0 else "verus not runnable")
sys.exit(0 if ok else 1)
