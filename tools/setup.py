#!/usr/bin/env python3
"""setup -- offline, from files on disk only: checks the tools are present and pre-builds the Kani
harness crate and the replay binary so that the first check does not pay for compilation."""
import os
import shutil
import subprocess
import sys

VERIF = os.path.dirname(os.path.dirname(os.path.abspath(__file__)))
sys.path.insert(0, os.path.join(VERIF, "tools"))
ok = True
for tool in ("verus", "cargo", "cargo-kani", "cbmc"):
    if shutil.which(tool) is None:
        print("missing tool:", tool)
        ok = False
os.makedirs(os.path.join(VERIF, "build"), exist_ok=True)
os.makedirs(os.path.join(VERIF, "evidence"), exist_ok=True)
try:
    import kani_run
    kani_run.prepare("/repo")
    import replay_run
    replay_run.build("/repo")
    print("replay binary built")
except Exception as ex:  # not fatal: checks rebuild what they need
    print("setup warning:", ex)
p = subprocess.run(["verus", "--version"], capture_output=True, text=True)
print(p.stdout.strip().split("\n")[1] if p.returncode == 0 else "verus not runnable")
sys.exit(0 if ok else 1)
