#!/bin/bash
# dev helper: generate a unit and show verus errors compactly
cd /verif && python3 tools/gen.py "$1" ${2:+$2} || exit 2
f=build/$1.rs; [ "$2" == "--twin" ] && f=build/$1_twin.rs
cd build && timeout ${VR_TIMEOUT:-600} verus $(basename $f) --rlimit ${VR_RLIMIT:-40} --num-threads 12 2>&1 | grep -vE "^\s*$" | grep -E -A${VR_CTX:-14} "^error|^verification" | grep -v "^warning" | head -${VR_LINES:-150}
