"""Rewrite rules R1..R11 of DESIGN.md section 4, expressed as edits on extracted item text.

Every rule works on a *masked* copy of the text (comments and string contents blanked) so that
nothing inside a comment or literal is ever rewritten, and adds Edits tagged with the rule id.
"""
import re

from rsx import Edits, RsxError, tokenize, match_close, OPEN, CLOSE, _split_top

KEPT_DERIVES = {"Clone", "Copy", "PartialEq", "Eq", "Default"}
DROPPED_DERIVES = {"Debug", "Serialize", "Deserialize", "Parser", "ValueEnum", "Hash", "PartialOrd", "Ord", "Args"}
DROP_ATTRS = ("doc", "allow", "rustfmt", "must_use", "inline", "non_exhaustive", "command", "arg",
              "macro_export", "serde", "clap", "cfg_attr", "deprecated")
ENABLED_CFGS = ('cfg(feature = "alloc")', 'cfg(feature = "std")', "cfg(feature = \"alloc\")")


def mask(text):
    """Blank comments and the *contents* of string/char literals, keeping offsets."""
    out = list(text)
    i, n = 0, len(text)
    while i < n:
        if text.startswith("//", i):
            j = text.find("\n", i)
            j = n if j < 0 else j
            for q in range(i, j):
                out[q] = " "
            i = j
            continue
        if text.startswith("/*", i):
            depth, j = 1, i + 2
            while j < n and depth:
                if text.startswith("/*", j):
                    depth += 1
                    j += 2
                elif text.startswith("*/", j):
                    depth -= 1
                    j += 2
                else:
                    j += 1
            for q in range(i, j):
                if out[q] != "\n":
                    out[q] = " "
            i = j
            continue
        m = re.compile(r'b?r(#*)"').match(text, i)
        if m and (i == 0 or not (text[i - 1].isalnum() or text[i - 1] == "_")):
            close = '"' + m.group(1)
            j = text.find(close, m.end())
            j = n if j < 0 else j + len(close)
            for q in range(m.end(), j - len(close)):
                if out[q] != "\n":
                    out[q] = " "
            i = j
            continue
        c = text[i]
        if c == '"':
            j = i + 1
            while j < n and text[j] != '"':
                j += 2 if text[j] == "\\" else 1
            for q in range(i + 1, min(j, n)):
                if out[q] != "\n":
                    out[q] = " "
            i = j + 1
            continue
        if c == "'":
            if i + 1 < n and text[i + 1] == "\\":
                j = text.find("'", i + 2)
                for q in range(i + 1, j):
                    out[q] = " "
                i = j + 1
                continue
            if i + 2 < n and text[i + 2] == "'":
                out[i + 1] = " "
                i += 3
                continue
        i += 1
    return "".join(out)


def _attr_spans(text, m):
    """Yields (s, e, inner) of every outer attribute #[...] in masked text m."""
    for mm in re.finditer(r"#\[", m):
        s = mm.start()
        d, j = 0, mm.end() - 1
        while j < len(m):
            if m[j] == "[":
                d += 1
            elif m[j] == "]":
                d -= 1
                if d == 0:
                    break
            j += 1
        yield s, j + 1, text[s + 2:j]


def r1_attributes(text, m, ed):
    for s, e, inner in _attr_spans(text, m):
        head = re.match(r"\s*([\w:]+)", inner)
        name = head.group(1) if head else ""
        compact = " ".join(inner.split())
        # swallow trailing whitespace+newline when the attribute is alone on its line
        def whole_line(s, e):
            ls = text.rfind("\n", 0, s) + 1
            le = text.find("\n", e)
            if text[ls:s].strip() == "" and le >= 0 and text[e:le].strip() == "":
                return ls, le + 1
            return s, e
        if name == "derive":
            names = [x.strip() for x in inner[inner.index("(") + 1:inner.rindex(")")].split(",") if x.strip()]
            unknown = [x for x in names if x.split("::")[-1] not in KEPT_DERIVES | DROPPED_DERIVES]
            if unknown:
                raise RsxError(f"R1: unknown derive(s) {unknown}")
            kept = [x for x in names if x.split("::")[-1] in KEPT_DERIVES]
            # a FIELD-LESS enum that derives PartialEq: its `==` is structural equality, which Verus only knows when told
            # (`Structural`). Without it a harmless `if x == E::A` in place of a `match` would make a postcondition unprovable.
            if "PartialEq" in [x.split("::")[-1] for x in kept] and "Structural" not in kept:
                mm = re.compile(r"(?:\s|#\[[^\]]*\]|pub(?:\([^)]*\))?)*enum\s+\w+[^{;]*\{").match(m, e)
                if mm:
                    ob = mm.end() - 1
                    d, j = 0, ob
                    while j < len(m):
                        if m[j] == "{":
                            d += 1
                        elif m[j] == "}":
                            d -= 1
                            if d == 0:
                                break
                        j += 1
                    body = m[ob + 1:j]
                    if "(" not in body and "{" not in body:
                        kept = kept + ["Structural"]
                else:
                    # likewise a struct all of whose fields are machine integers / bool / char (e.g. `Location { row, col }`)
                    mm = re.compile(r"(?:\s|#\[[^\]]*\]|pub(?:\([^)]*\))?)*struct\s+\w+\s*\{").match(m, e)
                    if mm:
                        ob = mm.end() - 1
                        j = m.find("}", ob)
                        fields = [f.strip() for f in m[ob + 1:j].split(",") if f.strip()]
                        prim = {"usize", "isize", "u8", "u16", "u32", "u64", "u128", "i8", "i16", "i32", "i64", "i128", "bool", "char"}
                        if fields and all(re.match(r"^(?:pub(?:\([^)]*\))?\s+)?\w+\s*:\s*(\w+)$", f) and re.match(r"^(?:pub(?:\([^)]*\))?\s+)?\w+\s*:\s*(\w+)$", f).group(1) in prim for f in fields):
                            kept = kept + ["Structural"]
            if kept == names:
                continue
            if kept:
                ed.add(s, e, "#[derive(" + ", ".join(kept) + ")]", "R1")
            else:
                ws, we = whole_line(s, e)
                ed.add(ws, we, "", "R1")
        elif name.split("::")[0] in DROP_ATTRS or compact in ENABLED_CFGS:
            ws, we = whole_line(s, e)
            ed.add(ws, we, "", "R1")
        elif name == "cfg":
            raise RsxError(f"R1: unresolved cfg attribute #[{compact}]")
        elif name in ("verifier", "derive", "default", "repr"):
            continue
        else:
            raise RsxError(f"R1: unknown attribute #[{compact}]")


def r2_apit(text, m, ed, fns, dyn_too=False):
    """impl Trait in argument position -> named generic parameter.
    R21 (dyn_too): `&dyn Trait` in argument position -> `&G` with `G: Trait` as well (static instead of dynamic
    dispatch: the function is then verified for EVERY implementor against the trait's contract)."""
    toks = tokenize(text)
    for f in fns:
        # tokens of the parameter list
        ptoks = [t for t in toks if f.params_open <= t.s < f.params_close]
        new_generics = []
        k = 0
        while k < len(ptoks):
            t = ptoks[k]
            if t.kind == "id" and t.text == "dyn" and dyn_too:
                # only `&dyn Tr` that IS the parameter's type; a `dyn` nested in generic arguments (`Vec<&dyn Tr>`) is left alone
                depth_angle = sum(1 for q in ptoks[:k] if q.kind == "p" and q.text == "<") - sum(1 for i2, q in enumerate(ptoks[:k]) if q.kind == "p" and q.text == ">" and ptoks[i2 - 1].text != "-")
                # restart the count at the last top-level comma: count only within this parameter
                last_comma = max([i2 for i2, q in enumerate(ptoks[:k]) if q.kind == "p" and q.text == ","] + [-1])
                seg = ptoks[last_comma + 1:k]
                depth_angle = sum(1 for q in seg if q.kind == "p" and q.text == "<") - sum(1 for i2, q in enumerate(seg) if q.kind == "p" and q.text == ">" and (i2 == 0 or seg[i2 - 1].text != "-"))
                if depth_angle > 0:
                    k += 1
                    continue
            if t.kind == "id" and (t.text == "impl" or (dyn_too and t.text == "dyn")):
                # bound extends to ',' / ')' / '>' at relative depth 0
                d, a, q = 0, 0, k + 1
                while q < len(ptoks):
                    tt = ptoks[q]
                    if tt.kind == "p":
                        if tt.text in OPEN:
                            d += 1
                        elif tt.text in CLOSE:
                            if d == 0:
                                break
                            d -= 1
                        elif tt.text == "<":
                            a += 1
                        elif tt.text == ">" and ptoks[q - 1].text != "-":
                            if a == 0:
                                break
                            a -= 1
                        elif tt.text == "," and d == 0 and a == 0:
                            break
                    q += 1
                bound = text[ptoks[k + 1].s:ptoks[q - 1].e]
                gname = f"G{len(new_generics)}_"
                new_generics.append(f"{gname}: {bound}")
                ed.add(t.s, ptoks[q - 1].e, gname, "R2" if t.text == "impl" else "R21")
                k = q
                continue
            k += 1
        if new_generics:
            if f.generics:
                gs, ge = f.generics
                inner = text[gs + 1:ge - 1].rstrip()
                sep = "" if inner.endswith(",") or not inner.strip() else ", "
                ed.add(ge - 1, ge - 1, sep + ", ".join(new_generics), "R2")
            else:
                ed.add(f.name_e, f.name_e, "<" + ", ".join(new_generics) + ">", "R2")


def _macro_calls(text, m, name):
    """Yields (s, e, args_s, args_e) for invocations `name!(...)` in masked text."""
    for mm in re.finditer(r"(?<![\w:])(?:core::|std::)?" + re.escape(name) + r"!\s*([\(\[\{])", m):
        ob = mm.end() - 1
        d, j = 0, ob
        while j < len(m):
            if m[j] in "([{":
                d += 1
            elif m[j] in ")]}":
                d -= 1
                if d == 0:
                    break
            j += 1
        yield mm.start(), j + 1, ob + 1, j


def r4_debug_assert_eq(text, m, ed):
    for name, op in (("debug_assert_eq", "=="), ("debug_assert_ne", "!="), ("assert_eq", "=="), ("assert_ne", "!=")):
        for s, e, a, b in _macro_calls(text, m, name):
            parts = _split_top(text[a:b])
            if len(parts) < 2:
                raise RsxError(f"R4: {name}! with fewer than two arguments")
            new = ("debug_assert" if name.startswith("debug") else "assert") + f"!(({parts[0]}) {op} ({parts[1]}))"
            ed.add(s, e, new, "R4")


def r5_unchecked(text, m, ed):
    for name, repl in (("get_unchecked_mut", "get_mut"), ("get_unchecked", "get")):
        for mm in re.finditer(r"\.\s*" + name + r"\s*\(", m):
            ob = mm.end() - 1
            d, j = 0, ob
            while j < len(m):
                if m[j] in "([{":
                    d += 1
                elif m[j] in ")]}":
                    d -= 1
                    if d == 0:
                        break
                j += 1
            ed.add(mm.start(), mm.end(), "." + repl + "(", "R5")
            ed.add(j, j + 1, ").unwrap()", "R5")
    for mm in re.finditer(r"(\b\w+)\.try_into\(\)\.unwrap_unchecked\(\)", m):
        ed.add(mm.start(), mm.end(), f"shim_as_array({mm.group(1)})", "R5")
    for mm in re.finditer(r"(?:core|std)::hint::unreachable_unchecked\(\)", m):
        ed.add(mm.start(), mm.end(), "unreachable!()", "R5")


def r6_copy(text, m, ed):
    for mm in re.finditer(r"(?:core|std)::ptr::copy_nonoverlapping\s*\(", m):
        ob = mm.end() - 1
        d, j = 0, ob
        while j < len(m):
            if m[j] in "([{":
                d += 1
            elif m[j] in ")]}":
                d -= 1
                if d == 0:
                    break
            j += 1
        parts = _split_top(text[ob + 1:j])
        if len(parts) != 3:
            raise RsxError("R6: copy_nonoverlapping with unexpected arguments")
        ms = re.fullmatch(r"(\w+)\.as_ptr\(\)", parts[0])
        md = re.fullmatch(r"(\w+)\.as_mut_ptr\(\)", parts[1])
        if not ms or not md:
            raise RsxError(f"R6: copy_nonoverlapping operands are not x.as_ptr()/y.as_mut_ptr(): {parts}")
        ed.add(mm.start(), j + 1, f"shim_copy_nonoverlapping({parts[2]}, {ms.group(1)}, {md.group(1)})", "R6")


def r11_paths(text, m, ed, fns=()):
    """Visibility and paths. The unit is one flat namespace in which *everything* is public:
    `pub(crate)`/`pub(super)`/private -> `pub` on items, struct fields and inherent-impl fns;
    `crate::`/`super::`/`self::` path prefixes (plus snake_case module segments) are dropped."""
    toks = tokenize(text)
    for mm in re.finditer(r"\bpub\s*\(\s*(?:crate|super|self|in [\w:]+)\s*\)", m):
        ed.add(mm.start(), mm.end(), "pub", "R11")
    # crate:: / super:: followed by module (snake_case) segments
    for mm in re.finditer(r"(?<![\w:])\$?(?:crate|super|self)::((?:[a-z_][a-z0-9_]*::)*)(?=[A-Za-z_])", m):
        ed.add(mm.start(), mm.end(), "", "R11")

    def has_pub_before(k):
        # walk back over qualifiers
        q = k
        while q > 0 and toks[q - 1].kind == "id" and toks[q - 1].text in ("unsafe", "const", "async", "extern", "default"):
            q -= 1
        if q > 0 and toks[q - 1].text == "pub":
            return True, q
        if q > 0 and toks[q - 1].text == ")":
            d, j = 0, q - 1
            while j >= 0:
                if toks[j].text == ")":
                    d += 1
                elif toks[j].text == "(":
                    d -= 1
                    if d == 0:
                        break
                j -= 1
            if j >= 1 and toks[j - 1].text == "pub":
                return True, q
        return False, q

    # the item keyword is the first item-keyword token at depth 0
    depth = 0
    kw = None
    for k, t in enumerate(toks):
        if t.kind == "p" and t.text in OPEN:
            depth += 1
        elif t.kind == "p" and t.text in CLOSE:
            depth -= 1
        elif depth == 0 and t.kind == "id" and t.text in ("impl", "struct", "enum", "trait", "fn", "type", "const", "static", "union") \
                and not (k > 0 and toks[k - 1].text == "#"):
            # skip attribute contents: attributes are bracketed so depth>0 there
            kw = k
            break
    if kw is None:
        return
    kind = toks[kw].text
    if kind == "const" and kw + 1 < len(toks) and toks[kw + 1].text in ("fn", "unsafe"):
        kind = "fn"
    if kind != "impl":
        has, q = has_pub_before(kw)
        if not has:
            ed.add(toks[q].s, toks[q].s, "pub ", "R11", prio=-4)
    if kind in ("struct", "union"):
        # find the field list
        j = kw + 1
        while j < len(toks) and toks[j].text not in ("{", "(", ";"):
            if toks[j].text == "where":
                # where-clause of a braced struct: skip to its `{`
                while j < len(toks) and toks[j].text not in ("{", ";"):
                    j += 1
                break
            j += 1
        # generics may contain parens? (Fn(..)) rare -- not handled
        if j < len(toks) and toks[j].text in ("{", "("):
            ob = j
            cb = match_close(toks, ob)
            d = 0
            expect_field = True
            q = ob + 1
            angle = 0
            while q < cb:
                t = toks[q]
                if t.kind == "p" and t.text in OPEN:
                    d += 1
                elif t.kind == "p" and t.text in CLOSE:
                    d -= 1
                elif t.kind == "p" and t.text == "<":
                    angle += 1
                elif t.kind == "p" and t.text == ">" and toks[q - 1].text != "-" and angle > 0:
                    angle -= 1
                if d == 0 and angle == 0 and expect_field:
                    if t.text == "#":
                        # attribute: skip it
                        ab = q + 1
                        q = match_close(toks, ab) + 1
                        continue
                    if t.text == "pub":
                        expect_field = False
                        q += 1
                        continue
                    ed.add(t.s, t.s, "pub ", "R11", prio=-4)
                    expect_field = False
                if d == 0 and angle == 0 and t.kind == "p" and t.text == ",":
                    expect_field = True
                q += 1
    if kind == "impl":
        # inherent impl <=> no `for` at depth 0 before the body
        j = kw + 1
        inherent = True
        d = 0
        while j < len(toks) and not (toks[j].text == "{" and d == 0):
            if toks[j].kind == "p" and toks[j].text in "([":
                d += 1
            elif toks[j].kind == "p" and toks[j].text in ")]":
                d -= 1
            if toks[j].kind == "id" and toks[j].text == "for" and toks[j + 1].text != "<":
                inherent = False
            j += 1
        if inherent:
            for f in fns:
                has, q = has_pub_before(f.fn_tok)
                if not has:
                    ed.add(toks[q].s, toks[q].s, "pub ", "R11", prio=-4)


def r10_peekable(text, m, ed):
    """`s.chars().peekable()` -> `PeekChars::new(s)`, `s.char_indices().peekable()` ->
    `PeekCharIndices::new(s)`; field types renamed accordingly. The shims (shims/chars.rs) are thin
    wrappers that delegate 1:1; `next` / `peek` keep their names."""
    for mm in re.finditer(r"([\w\.]+)\.chars\(\)\.peekable\(\)", m):
        ed.add(mm.start(), mm.end(), f"PeekChars::new({mm.group(1)})", "R10")
    for mm in re.finditer(r"([\w\.]+)\.char_indices\(\)\.peekable\(\)", m):
        ed.add(mm.start(), mm.end(), f"PeekCharIndices::new({mm.group(1)})", "R10")
    for mm in re.finditer(r"(?:std::iter::)?Peekable<\s*(?:std::str::)?Chars<([^>]*)>\s*>", m):
        ed.add(mm.start(), mm.end(), f"PeekChars<{mm.group(1)}>", "R10")
    for mm in re.finditer(r"(?:std::iter::)?Peekable<\s*(?:std::str::)?CharIndices<([^>]*)>\s*>", m):
        ed.add(mm.start(), mm.end(), f"PeekCharIndices<{mm.group(1)}>", "R10")


def r13_le_bytes(text, m, ed):
    """`x.to_le_bytes()` / `T::from_le_bytes(b)`: std returns `[u8; size_of::<T>()]`, a const
    expression this Verus cannot match in an assume_specification. Rewritten to the shim trait
    methods `shim_to_le_bytes` / `shim_from_le_bytes` (shims/codec_std.rs), whose bodies are exactly
    the std calls and whose assumed contract is the little-endian byte layout."""
    for mm in re.finditer(r"\.to_le_bytes\(\)", m):
        ed.add(mm.start(), mm.end(), ".shim_to_le_bytes()", "R13")
    for mm in re.finditer(r"::from_le_bytes\(", m):
        ed.add(mm.start(), mm.end(), "::shim_from_le_bytes(", "R13")


def r14_wild_params(text, m, ed, fns):
    """`_: T` function parameters get a name (`_p0`, ...): Verus requires identifier patterns."""
    toks = tokenize(text)
    for f in fns:
        n = 0
        depth = 0
        for t in toks:
            if not (f.params_open <= t.s < f.params_close):
                continue
            if t.kind == "p" and t.text in OPEN:
                depth += 1
            elif t.kind == "p" and t.text in CLOSE:
                depth -= 1
            elif depth == 1 and t.kind == "id" and t.text == "_":
                # must be followed by ':'
                nxt = m[t.e:t.e + 3].lstrip()
                if nxt.startswith(":"):
                    ed.add(t.s, t.e, f"_p{n}", "R14")
                    n += 1


def r17_mut_self(text, m, ed, fns):
    """`fn f(mut self, ..) { BODY }` (receiver taken by value and modified in place) is not parsed
    inside verus!. Desugared to `fn f(self, ..) { let mut self_ = self; BODY[self := self_] }` --
    the by-value receiver bound to a mutable local, which is what `mut self` means. Returns the
    (body_s, body_e) ranges in which `self` was renamed."""
    toks = tokenize(text)
    renamed = []
    for f in fns:
        if not f.has_body:
            continue
        ps = [t for t in toks if f.params_open <= t.s < f.params_close]
        hit = None
        for i, (a, b) in enumerate(zip(ps, ps[1:])):
            if a.kind == "id" and a.text == "mut" and b.kind == "id" and b.text == "self" \
                    and not (i > 0 and (ps[i - 1].text == "&" or ps[i - 1].kind == "life")):
                hit = (a, b)
                break
        if hit is None:
            continue
        a, b = hit
        ed.add(a.s, b.s, "", "R17")
        ed.add(f.body_s + 1, f.body_s + 1, " let mut self_ = self;", "R17", prio=-8)
        for t in toks:
            if f.body_s < t.s < f.body_e and t.kind == "id" and t.text == "self" and m[t.s:t.e] == "self":
                ed.add(t.s, t.e, "self_", "R17")
        renamed.append((f.body_s, f.body_e))
    return renamed


def r18_for_in_mut(text, m, ed, fns, renamed=()):
    """`for PAT in &mut EXPR { BODY }` (slice::IterMut: this Verus has no usable invariant for it)
    is desugared to the index loop it abbreviates for a Vec / slice:
        let mut r18_iN: usize = 0; while r18_iN < EXPR.len() { let PAT = &mut EXPR[r18_iN]; BODY r18_iN += 1; }
    Refused (exit 2) when BODY contains `continue` (it would skip the increment) or EXPR is not a
    plain place expression (identifiers, `.`, tuple indices)."""
    toks = tokenize(text)
    n = 0
    for f in fns:
        if not f.has_body:
            continue
        idx = [k for k, t in enumerate(toks) if f.body_s <= t.s < f.body_e]
        for k in idx:
            t = toks[k]
            if not (t.kind == "id" and t.text == "for" and m[t.s:t.e] == "for"):
                continue
            # find `in` at depth 0, then `& mut`
            d, q = 0, k + 1
            while not (toks[q].kind == "id" and toks[q].text == "in" and d == 0):
                if toks[q].kind == "p" and toks[q].text in OPEN:
                    d += 1
                elif toks[q].kind == "p" and toks[q].text in CLOSE:
                    d -= 1
                q += 1
            if not (toks[q + 1].text == "&" and toks[q + 2].text == "mut"):
                continue
            pat = text[toks[k + 1].s:toks[q - 1].e]
            e0 = q + 3
            e1 = e0
            while toks[e1].text != "{":
                if not (toks[e1].kind in ("id", "num") or toks[e1].text == "."):
                    raise RsxError(f"R18: `for {pat} in &mut ...`: iterated expression is not a plain place")
                e1 += 1
            expr = text[toks[e0].s:toks[e1 - 1].e]
            close = match_close(toks, e1)
            body = m[toks[e1].s:toks[close].e]
            if re.search(r"\bcontinue\b", body):
                raise RsxError("R18: loop body contains `continue`")
            n += 1
            iv = f"r18_i{n}"
            expr2 = re.sub(r"\bself\b", "self_", expr) if any(a <= t.s < b for (a, b) in renamed) else expr
            ed.add(t.s, toks[e0].s, f"let mut {iv}: usize = 0; while {iv} < ", "R18")
            ed.add(toks[e1 - 1].e, toks[e1 - 1].e, ".len()", "R18", prio=-1)
            ed.add(toks[e1].e, toks[e1].e, f" let {pat} = &mut {expr2}[{iv}];", "R18", prio=-7)
            ed.add(toks[close].s, toks[close].s, f" {iv} += 1; ", "R18", prio=7)


def r22_for_by_value_continue(text, m, ed, fns):
    """`for X in EXPR { BODY }` over a Vec taken BY VALUE, whose BODY contains `continue` (this Verus rejects `continue`
    inside `for`) and uses X only as the receiver of method calls / field accesses (auto-ref), is desugared to
        let mut r22_iN: usize = 0; while r22_iN < EXPR.len() { let X = &EXPR[r22_iN]; r22_iN += 1; BODY }
    The increment comes first, so `continue` goes to the next element as it does in the `for`. Refused (exit 2) when X is not
    a plain identifier, EXPR is not a plain place, or X occurs other than as `X.`: a by-value use of X would not type-check
    against `&T` anyway."""
    toks = tokenize(text)
    n = 0
    for f in fns:
        if not f.has_body:
            continue
        idx = [k for k, t in enumerate(toks) if f.body_s <= t.s < f.body_e]
        for k in idx:
            t = toks[k]
            if not (t.kind == "id" and t.text == "for" and m[t.s:t.e] == "for"):
                continue
            if not (toks[k + 1].kind == "id" and toks[k + 2].kind == "id" and toks[k + 2].text == "in"):
                continue
            pat = toks[k + 1].text
            e0 = k + 3
            e1 = e0
            plain = True
            while toks[e1].text != "{":
                if not (toks[e1].kind in ("id", "num") or toks[e1].text == "."):
                    plain = False
                e1 += 1
            close = match_close(toks, e1)
            body = m[toks[e1].s:toks[close].e]
            if not re.search(r"\bcontinue\b", body):
                continue
            if toks[e0].text == "&":
                continue   # a by-reference loop: left as written (Verus decides whether it accepts it)
            if not plain:
                raise RsxError(f"R22: `for {pat} in ...` with `continue`: iterated expression is not a plain place taken by value")
            for q in range(e1 + 1, close):
                if toks[q].kind == "id" and toks[q].text == pat and m[toks[q].s:toks[q].e] == pat:
                    if not (toks[q + 1].kind == "p" and toks[q + 1].text == ".") or (toks[q - 1].kind == "p" and toks[q - 1].text == "."):
                        raise RsxError(f"R22: `{pat}` is used other than as a receiver in the loop body")
            n += 1
            iv = f"r22_i{n}"
            expr = text[toks[e0].s:toks[e1 - 1].e]
            ed.add(t.s, toks[e0].s, f"let mut {iv}: usize = 0; while {iv} < ", "R22")
            ed.add(toks[e1 - 1].e, toks[e1 - 1].e, ".len()", "R22", prio=-1)
            ed.add(toks[e1].e, toks[e1].e, f" let {pat} = &{expr}[{iv}]; {iv} += 1;", "R22", prio=-7)


R7_MACROS = ("eprintln", "println", "eprint", "print")


def r7_format(text, m, ed):
    """write!/writeln!/format!/println!… -> opaque shim calls; arguments are evaluated (so any
    panic inside them is still an obligation) but the text is dropped."""
    for name in ("write", "writeln"):
        for s, e, a, b in _macro_calls(text, m, name):
            parts = _split_top(text[a:b])
            args = _fmt_args(parts[2:])
            ed.add(s, e, f"shim_write_fmt({parts[0]}{args})", "R7")
    for s, e, a, b in _macro_calls(text, m, "format"):
        parts = _split_top(text[a:b])
        ed.add(s, e, f"shim_format({_fmt_args(parts[1:], lead=False)})", "R7")
    for name in R7_MACROS:
        for s, e, a, b in _macro_calls(text, m, name):
            parts = _split_top(text[a:b])
            ed.add(s, e, f"shim_print({_fmt_args(parts[1:], lead=False)})", "R7")


def _fmt_args(parts, lead=True):
    # each explicit format argument is passed by reference to an opaque sink so it is evaluated
    vals = []
    for p in parts:
        if re.match(r"^\w+\s*=[^=]", p):
            p = p.split("=", 1)[1].strip()
        vals.append(p)
    if not vals:
        return ""
    inner = ", ".join(f"shim_arg(&({v}))" for v in vals)
    return (", " if lead else "") + "&[" + inner + "]"


def apply_all(text, fns_scanner, extra=None, skip=()):
    """Apply R1,R2,R4,R5,R6,R11 (+R7 when requested through extra) to text; returns
    (new_text, offset_map, counts)."""
    ed = Edits(text)
    m = mask(text)
    if "R1" not in skip:
        r1_attributes(text, m, ed)
    if "R2" not in skip:
        r2_apit(text, m, ed, fns_scanner(text))
    if "R4" not in skip:
        r4_debug_assert_eq(text, m, ed)
    if "R5" not in skip:
        r5_unchecked(text, m, ed)
    if "R6" not in skip:
        r6_copy(text, m, ed)
    if "R11" not in skip:
        r11_paths(text, m, ed)
    for fn in (extra or []):
        fn(text, m, ed)
    new, omap = ed.apply()
    return new, omap, ed.counts(), ed
