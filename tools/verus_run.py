#!/usr/bin/env python3
"""verus_run -- generate a unit (and its must-fail twin) from /repo's working tree, run Verus on it
under a timeout, and turn the verifier's JSON output into named obligations.

Classification (DESIGN.md section 6):
  violation  : the verifier *refuted* a proof obligation (post/pre-condition, invariant, assertion,
               overflow, bounds, decreases, reachable panic)
  undecided  : anything else that is not a pass (rlimit, timeout, unsupported construct, type error
               in generated text, lost anchor, unknown macro shape, item not found)
"""
import json
import os
import re
import subprocess
import sys
import time

sys.path.insert(0, os.path.dirname(os.path.abspath(__file__)))
import gen  # noqa: E402
from rsx import RsxError  # noqa: E402

VERIF = gen.VERIF
VERUS_TIMEOUT = int(os.environ.get("VERIF_VERUS_TIMEOUT", "600"))
RLIMIT = os.environ.get("VERIF_VERUS_RLIMIT", "40")

VIOLATION_PATTERNS = [
    r"postcondition not satisfied", r"precondition not satisfied", r"invariant not satisfied",
    r"assertion failed", r"possible arithmetic underflow/overflow", r"possible division by zero",
    r"decreases not satisfied", r"possible bit shift underflow/overflow", r"loop invariant",
    r"unreachable", r"index out of bounds", r"assertion not satisfied", r"might not terminate",
    r"could not prove termination", r"failed to establish", r"not all paths",
    r"constructed value may fail to meet its declared type invariant",
    r"cannot show invariant", r"possible truncation",
]
UNDECIDED_PATTERNS = [r"resource limit", r"rlimit", r"timed? ?out", r"does not yet support", r"not supported",
                      r"unsupported", r"while loop: Resource limit", r"cyclic self-reference"]
IGNORED_SUMMARY = [r"^aborting due to", r"^could not compile"]


def classify(msg, code):
    low = msg.lower()
    for p in IGNORED_SUMMARY:
        if re.search(p, low):
            return "summary"
    for p in UNDECIDED_PATTERNS:
        if re.search(p, low):
            return "undecided"
    if code:  # rustc error code => type / borrow error in generated text
        return "undecided"
    for p in VIOLATION_PATTERNS:
        if re.search(p, low):
            return "violation"
    return "undecided"


def run_verus(rs_path, threads=6, extra=(), rlimit=None):
    cmd = ["timeout", str(VERUS_TIMEOUT), "verus", os.path.basename(rs_path), "--output-json", "--time",
           "--error-format=json", "--multiple-errors", "4", "--rlimit", str(rlimit or RLIMIT), "--num-threads", str(threads),
           "--no-report-long-running", *extra]
    t0 = time.time()
    p = subprocess.run(cmd, cwd=os.path.dirname(rs_path), capture_output=True, text=True)
    wall = time.time() - t0
    out = {"cmd": " ".join(cmd), "rc": p.returncode, "wall_s": round(wall, 2), "diags": [], "functions": {},
           "verified": 0, "errors": 0, "timed_out": p.returncode == 124, "smt_ms": None, "raw_stderr_tail": ""}
    try:
        j = json.loads(p.stdout[p.stdout.index("{"):]) if "{" in p.stdout else {}
    except Exception:
        j = {}
    vr = j.get("verification-results", {})
    out["verified"] = vr.get("verified", 0)
    out["errors"] = vr.get("errors", 0)
    out["success_flag"] = vr.get("success", False)
    tm = j.get("times-ms", {})
    out["total_ms"] = tm.get("total")
    smt = tm.get("smt", {})
    out["smt_ms"] = smt.get("smt-run")
    for mt in smt.get("smt-run-module-times", []):
        for fb in mt.get("function-breakdown", []):
            nm = fb["function"]
            prev = out["functions"].get(nm)
            ok = fb.get("success", False) and (prev["success"] if prev else True)
            out["functions"][nm] = {"success": ok, "mode": fb.get("mode:"),
                                    "time_us": fb.get("time-micros", 0) + (prev["time_us"] if prev else 0),
                                    "rlimit": fb.get("rlimit", 0) + (prev["rlimit"] if prev else 0)}
    for ln in p.stderr.split("\n"):
        ln = ln.strip()
        if not ln.startswith("{"):
            continue
        try:
            d = json.loads(ln)
        except Exception:
            continue
        if d.get("$message_type") != "diagnostic" or d.get("level") not in ("error",):
            continue
        code = (d.get("code") or {}).get("code") if d.get("code") else None
        cls = classify(d.get("message", ""), code)
        if cls == "summary":
            continue
        def _outer(s):
            # a span inside a std macro (debug_assert!, assert!, unreachable!, ...) is reported at the
            # macro's definition; follow the expansion chain out to the invocation in the generated file
            base = os.path.basename(rs_path)
            cur, hops = s, 0
            while cur is not None and os.path.basename(cur.get("file_name") or "") != base and hops < 12:
                cur = (cur.get("expansion") or {}).get("span")
                hops += 1
            if cur is not None and cur is not s:
                return dict(cur, label=s.get("label"), is_primary=s.get("is_primary"))
            return s
        spans = [dict(file=s.get("file_name"), line_start=s.get("line_start"), line_end=s.get("line_end"),
                      label=s.get("label"), primary=s.get("is_primary"),
                      text=(s.get("text") or [{}])[0].get("text", "").strip()[:200])
                 for s in map(_outer, d.get("spans", []))]
        out["diags"].append(dict(message=d.get("message"), cls=cls, code=code, spans=spans,
                                 rendered=(d.get("rendered") or "")[:3000]))
    if not j:
        out["raw_stderr_tail"] = p.stderr[-3000:]
    return out


def attribute(diag, meta, rs_file):
    """Map a diagnostic to (function record, clause id or None)."""
    base = os.path.basename(rs_file)
    fn = None
    clause = None
    lines = []
    for s in diag["spans"]:
        if s["file"] and os.path.basename(s["file"]) == base and s["line_start"]:
            lines.append((s["line_start"], s["line_end"] or s["line_start"], s))
    # function: the contracted fn range that contains the span labelled as the body / call site
    order = sorted(lines, key=lambda x: (not ("end of the function body" in (x[2]["label"] or "")), not x[2]["primary"]))
    for (a, b, s) in order:
        for f in meta["fn_lines"]:
            if f["end"] and f["start"] <= a <= f["end"]:
                # prefer fns with a body (impl) over trait declarations
                cand = f
                if fn is None or ("trait " in fn["item"] and "trait " not in cand["item"]):
                    fn = cand
        if fn is not None and "trait " not in fn["item"]:
            break
    for (a, b, s) in lines:
        lab = (s["label"] or "")
        if "failed this postcondition" in lab or "failed precondition" in lab or "invariant" in lab or s["primary"]:
            best = None
            for c in meta["clauses"]:
                if c["line"] <= a and (best is None or c["line"] > best["line"]):
                    best = c
            # a clause marker applies only when the span is on the clause's own lines: the marker
            # must be the closest one and no function body brace in between; approximate by distance
            if best is not None and a - best["line"] <= 6 and ("/*@cl" in s["text"] or a == best["line"]
                                                               or "failed" in lab):
                clause = best
                break
    return fn, clause


_RUN_DIR = None


def _run_dir():
    """Generated files of this process go to their own directory (concurrent checks - e.g. a
    background seeded-change run and an interactive one - must never share generated text)."""
    global _RUN_DIR
    if _RUN_DIR is None:
        import atexit
        import shutil
        _RUN_DIR = os.path.join(VERIF, "build", f"run_{os.getpid()}")
        os.makedirs(_RUN_DIR, exist_ok=True)
        if not os.environ.get("VERIF_KEEP_BUILD"):
            atexit.register(lambda: shutil.rmtree(_RUN_DIR, ignore_errors=True))
    return _RUN_DIR


def run_unit(unit, twin=True, threads=6, outdir=None):
    """Returns a result dict: status pass|violation|undecided, obligations list, etc."""
    outdir = outdir or _run_dir()
    res = {"unit": unit, "status": "pass", "violations": [], "undecided": [], "meta": None, "run": None,
           "twin": None}
    try:
        rs, meta = gen.write_unit(unit, twin=False, outdir=outdir)
    except RsxError as ex:
        res["status"] = "undecided"
        res["undecided"].append(f"extraction: {ex}")
        return res
    res["meta"] = meta
    run = run_verus(rs, threads)
    # A FALSE goal often exhausts the resource limit before Z3 gives up on it ("rlimit exceeded" =
    # undecided). One retry with five times the limit turns most of these into a definite "postcondition
    # not satisfied"; on a tree where everything verifies this costs nothing.
    if not run["timed_out"] and any("rlimit" in (d["message"] or "").lower() for d in run["diags"]):
        run_hi = run_verus(rs, threads, rlimit=int(RLIMIT) * 5)
        if not run_hi["timed_out"]:
            run_hi["retried_with_rlimit"] = int(RLIMIT) * 5
            run = run_hi
    res["run"] = run
    if run["timed_out"]:
        res["status"] = "undecided"
        res["undecided"].append(f"verus timed out after {VERUS_TIMEOUT}s on unit {unit}")
        return res
    viol, und = [], []
    for d in run["diags"]:
        if d["cls"] == "violation":
            fn, clause = attribute(d, meta, rs)
            viol.append(dict(unit=unit, message=d["message"],
                             file=fn["file"] if fn else None, item=fn["item"] if fn else None,
                             fn=fn["fn"] if fn else None,
                             clause=clause["id"] if clause else None,
                             clause_text=clause["text"] if clause else None,
                             clause_where=clause["where"] if clause else None,
                             spans=d["spans"], rendered=d["rendered"]))
        else:
            und.append(d["message"][:300] + " @ " + "; ".join(
                f"{s['file']}:{s['line_start']}" for s in d["spans"][:2]))
    if not run["functions"] and not viol and not und and run["rc"] != 0:
        und.append("verus produced no result: " + run["raw_stderr_tail"][-600:])
    if und:
        res["status"] = "undecided"
        res["undecided"] += und
    if viol:
        res["violations"] = viol
        if res["status"] == "pass":
            res["status"] = "violation"
        elif all("rlimit" not in u and "timed" not in u for u in und):
            # genuine refutations alongside unsupported-feature noise are still refutations only if
            # verification actually ran (function results exist)
            res["status"] = "violation" if run["functions"] else "undecided"
    if res["status"] == "pass" and not (run["rc"] == 0 and run["errors"] == 0 and run["verified"] > 0):
        res["status"] = "undecided"
        res["undecided"].append(f"verus rc={run['rc']} verified={run['verified']} errors={run['errors']}")
    # vacuity twin: run whenever verification itself ran to completion (also when obligations were
    # refuted: known findings must not switch the vacuity guard off)
    if twin and res["status"] in ("pass", "violation") and run["functions"]:
        try:
            rs2, meta2 = gen.write_unit(unit, twin=True, outdir=outdir)
            run2 = run_verus(rs2, threads)
            survivors = []
            checked = 0
            fails_by_fn = set()
            for d in run2["diags"]:
                if d["cls"] == "violation":
                    fn, _ = attribute(d, meta2, rs2)
                    if fn:
                        fails_by_fn.add((fn["item"], fn["fn"]))
            for f in meta2["functions"]:
                if f["has_body"] and not f["assumed"]:
                    checked += 1
                    if (f["item"], f["fn"]) not in fails_by_fn:
                        survivors.append(f"{f['item']}::{f['fn']}")
            res["twin"] = dict(checked=checked, survivors=survivors, wall_s=run2["wall_s"],
                               verified=run2["verified"], errors=run2["errors"])
            if run2["timed_out"]:
                res["status"] = "undecided"
                res["undecided"].append("vacuity twin timed out")
            elif survivors:
                res["status"] = "undecided"
                res["undecided"].append("VACUOUS: `assert(false)` at function entry verified for " + ", ".join(survivors))
        except RsxError as ex:
            res["status"] = "undecided"
            res["undecided"].append(f"twin extraction: {ex}")
    return res


if __name__ == "__main__":
    r = run_unit(sys.argv[1], twin="--no-twin" not in sys.argv)
    print(json.dumps({k: v for k, v in r.items() if k not in ("meta",)}, indent=1)[:6000])
    print("STATUS", r["status"])
