#!/usr/bin/env python3
"""gen -- builds one Verus file per verification unit from /repo's *current* source text.

Input:  contracts/<unit>.vspec  (what to extract, contracts / invariants / ghost lines to splice)
Output: build/<unit>.rs + build/<unit>.map.json (functions, clauses, rule log, line map)

Splicing adds only: a named return, requires/ensures/decreases after the signature,
invariant/decreases and an iterator binder on loops, ghost members, `proof { }` / assert hints at
anchored statements, and #[verifier::external_body] on functions declared `@assume`.
It never edits an executable token; executable tokens change only through the numbered rules of
tools/rules.py, and every application is logged.
"""
import json
import os
import re
import sys

sys.path.insert(0, os.path.dirname(os.path.abspath(__file__)))
import rsx  # noqa: E402
import rules  # noqa: E402
from rsx import RsxError  # noqa: E402

VERIF = os.path.dirname(os.path.dirname(os.path.abspath(__file__)))
REPO = os.environ.get("VERIF_REPO", "/repo")

CLAUSE_KW = ("returns", "requires", "ensures", "decreases", "invariant", "invariant_except_break",
             "recommends", "no_unwind", "opens_invariants", "binder", "loop_ensures", "via", "when")


class Clause:
    def __init__(self, kind, ids, text, where):
        self.kind, self.ids, self.text, self.where = kind, ids, text, where


class FnSpec:
    def __init__(self, name):
        self.name = name
        self.returns = None
        self.clauses = []      # Clause (requires/ensures/decreases/recommends)
        self.loops = {}        # ordinal -> {"binder":str|None, "clauses":[Clause]}
        self.hints = []        # (where:'after'|'before', anchor, text)
        self.assume = None     # reason
        self.stub = False
        self.tags = []
        self.attrs = []
        self.guards = []       # (names, clause id, bound expression)  -- R20 guarded calls


class ItemSpec:
    def __init__(self, path, header):
        self.path, self.header = path, header
        self.ghost = []
        self.fns = {}          # name -> FnSpec (in order)
        self.only = None
        self.drops = {}        # name -> reason
        self.ordinal = 1
        self.raw = None
        self.rewrites = []     # (anchor, replacement, note)  -- R12 anchored regions
        self.optmaps = []      # (receiver expression text, closure parameter)  -- R19
        self.skip_rules = set()
        self.extra_rules = set()
        self.rename = None


class Unit:
    def __init__(self):
        self.name = None
        self.props = []
        self.header = []
        self.parts = []        # ("include", path) | ("item", ItemSpec) | ("raw", text)
        self.macros = {}       # name -> MacroDef
        self.expand_files = set()
        self.foreach_stack = []
        self.notes = []
        self.trusted = []
        self.broadcast = []
        self.features = []
        self.replaces_re = {}      # path -> [(regex, template)]   (rule R16)
        self.replaces = {}         # path -> [(old, new)]   (rule R16)
        self.strip_prefixes = []   # crate names whose `name::module::` path prefixes are flattened (R11)
        self.renames = {}      # path -> {old identifier: new identifier}   (rule R15)


def parse_vspec(path):
    u = Unit()
    lines = _apply_defines(_apply_flags(_read_with_imports(path)))
    # @foreach X in a b c ... @endforeach  (textual repetition with $X substitution)
    lines = _expand_foreach(lines)
    i = 0
    cur_item = None
    cur_fn = None
    cur_loop = None
    cur_clause = None

    def block(i):
        out = []
        while i < len(lines) and lines[i].strip() != "@end":
            out.append(lines[i])
            i += 1
        if i >= len(lines):
            raise RsxError(f"{path}: missing @end")
        return out, i + 1

    while i < len(lines):
        ln = lines[i]
        st = ln.strip()
        if not st or st.startswith("#"):
            i += 1
            cur_clause = None if not st else cur_clause
            continue
        if st.startswith("@"):
            cur_clause = None
            d, _, rest = st.partition(" ")
            rest = rest.strip()
            if d == "@unit":
                u.name = rest
            elif d == "@uses":
                u.props = rest.split()
            elif d == "@replace":
                # @replace <path> `old text` => `new text`   (every occurrence in items of that file; rule R16:
                # invocation of an EXTERNAL crate's macro or an un-representable call -> named shim call)
                m = re.match(r"(\S+)\s+`(.*)`\s*=>\s*`(.*)`\s*$", rest)
                if not m:
                    raise RsxError(f"{path}:{i+1}: bad @replace")
                u.replaces.setdefault(m.group(1), []).append((m.group(2), m.group(3)))
            elif d == "@replacere":
                m = re.match(r"(\S+)\s+`(.*)`\s*=>\s*`(.*)`\s*$", rest)
                if not m:
                    raise RsxError(f"{path}:{i+1}: bad @replacere")
                u.replaces_re.setdefault(m.group(1), []).append((m.group(2), m.group(3)))
            elif d == "@stripprefix":
                u.strip_prefixes += rest.split()
            elif d == "@feature":
                u.features += rest.split()
            elif d == "@rename":
                pth, old, new = rest.split()
                u.renames.setdefault(pth, {})[old] = new
            elif d == "@broadcast":
                u.broadcast += rest.split()
            elif d == "@trusted":
                u.trusted.append(rest)
            elif d == "@header":
                b, i = block(i + 1)
                u.header += b
                continue
            elif d == "@include":
                u.parts.append(("include", rest))
            elif d == "@generate":
                # @generate <script relative to /verif>   -- run on every generation with REPO as argument;
                # its stdout is included verbatim (a non-zero exit stops the unit: exit 2)
                import subprocess
                pr = subprocess.run([sys.executable, os.path.join(VERIF, rest), REPO], capture_output=True, text=True)
                if pr.returncode != 0:
                    raise RsxError(f"generator {rest} failed: {pr.stderr.strip()[-400:]}")
                u.parts.append(("raw", f"// @generate {rest}\n" + pr.stdout))
            elif d == "@macros":
                p, _, names = rest.partition(":")
                src = open(os.path.join(REPO, p.strip())).read()
                for nm in names.split():
                    u.macros[nm] = rsx.load_macro(src, nm)
            elif d == "@expand":
                u.expand_files.add(rest)
            elif d == "@raw":
                b, i = block(i + 1)
                u.parts.append(("raw", "\n".join(b)))
                continue
            elif d == "@item":
                p, _, header = rest.partition("::")
                header = header.strip()
                cur_item = ItemSpec(p.strip(), header)
                m = re.search(r"\s+#(\d+)$", header)
                if m:
                    cur_item.ordinal = int(m.group(1))
                    cur_item.header = header[:m.start()]
                u.parts.append(("item", cur_item))
                cur_fn = cur_loop = None
            elif d == "@ghost":
                b, i = block(i + 1)
                cur_item.ghost += b
                continue
            elif d == "@only":
                cur_item.only = (cur_item.only or []) + rest.split()
            elif d == "@skiprule":
                cur_item.skip_rules |= set(rest.split())
            elif d == "@rule":
                cur_item.extra_rules |= set(rest.split())
            elif d == "@drop":
                nm, _, reason = rest.partition(":")
                for n1 in nm.split():
                    cur_item.drops[n1] = reason.strip()
            elif d == "@assume":
                nm, _, reason = rest.partition(":")
                cur_fn = cur_item.fns.setdefault(nm.strip(), FnSpec(nm.strip()))
                cur_fn.assume = reason.strip() or "assumed contract"
                cur_loop = None
            elif d == "@stub":
                # assumed contract, signature only: the body is replaced by unimplemented!() (it
                # uses constructs rustc cannot compile in the flat unit or Verus cannot parse in a
                # signature, e.g. `mut self`); listed with the assumed contracts
                nm, _, reason = rest.partition(":")
                cur_fn = cur_item.fns.setdefault(nm.strip(), FnSpec(nm.strip()))
                cur_fn.assume = "SIGNATURE ONLY - " + (reason.strip() or "assumed contract")
                cur_fn.stub = True
                cur_loop = None
            elif d == "@fn":
                cur_fn = cur_item.fns.setdefault(rest, FnSpec(rest))
                cur_loop = None
            elif d == "@attr":
                cur_fn.attrs.append(rest)
            elif d == "@loop":
                cur_loop = cur_fn.loops.setdefault(int(rest), {"binder": None, "clauses": []})
            elif d == "@endloop":
                cur_loop = None
            elif d == "@guard":
                # R20: every call of one of the named (reserving) functions in this fn gets its argument
                # bound to a local and an obligation `argument <= BOUND` in front of the call
                parts = [x.strip() for x in rest.split("::=")]
                if len(parts) != 3:
                    raise RsxError(f"{path}:{i+1}: @guard NAMES ::= CLAUSE ::= BOUND")
                cur_fn.guards.append((parts[0].split(), parts[1], parts[2]))
            elif d == "@hint":
                m = re.match(r"(after|before)\s+`(.*)`\s*$", rest)
                m2 = re.match(r"(loopstart|loopend|loopbefore|bodystart|bodyend|return)\s*(\d*)\s*$", rest)
                if not m and not m2:
                    raise RsxError(f"{path}:{i+1}: bad @hint")
                b, i = block(i + 1)
                if m2:
                    # structural position (start / end of the body of the function's n-th loop): does
                    # not depend on the text of any statement, so editing a condition cannot lose it
                    cur_fn.hints.append((m2.group(1), int(m2.group(2) or 0), "\n".join(b)))
                else:
                    cur_fn.hints.append((m.group(1), m.group(2).replace("¶", "\n"), "\n".join(b)))
                continue
            elif d == "@optmap":
                # R19: @optmap `EXPR.map(|x| `  -- Option::map with a closure that mutates captured state
                m = re.match(r"`(.*)\.map\(\|(\w+)\| `\s*$", rest)
                if not m:
                    raise RsxError(f"{path}:{i+1}: bad @optmap")
                cur_item.optmaps.append((m.group(1), m.group(2)))
            elif d == "@retype":
                m = re.match(r"`(.*)`\s*=>\s*`(.*)`\s*$", rest)
                if not m:
                    raise RsxError(f"{path}:{i+1}: bad @retype")
                cur_item.rewrites.append((m.group(1), m.group(2), "R9"))
            elif d == "@region":
                # R12 anchored region: @region `anchor text` => replacement on following block
                m = re.match(r"`(.*)`\s*$", rest)
                b, i = block(i + 1)
                # block: first part anchor lines until '=>' line, then replacement
                if m:
                    anchor = m.group(1)
                    repl = "\n".join(b)
                else:
                    idx = [k for k, x in enumerate(b) if x.strip() == "=>"]
                    if not idx:
                        raise RsxError(f"{path}:{i}: @region needs '=>'")
                    anchor = "\n".join(b[:idx[0]])
                    repl = "\n".join(b[idx[0] + 1:])
                cur_item.rewrites.append((anchor, repl, "R12"))
                continue
            else:
                raise RsxError(f"{path}:{i+1}: unknown directive {d}")
            i += 1
            continue
        # clause line
        m = re.match(r"\s*(\w+)(\[[^\]]*\])?\s*(.*)$", ln)
        if m and m.group(1) in CLAUSE_KW:
            kind, ids, text = m.group(1), m.group(2), m.group(3)
            ids = [x.strip() for x in ids[1:-1].split(",")] if ids else []
            if cur_fn is None:
                raise RsxError(f"{path}:{i+1}: clause outside @fn")
            if kind == "returns":
                cur_fn.returns = text.strip()
                cur_clause = None
            elif kind == "binder":
                cur_loop["binder"] = text.strip()
                cur_clause = None
            else:
                cur_clause = Clause(kind, ids, text, f"{os.path.basename(path)}:{i+1}")
                (cur_loop["clauses"] if cur_loop is not None else cur_fn.clauses).append(cur_clause)
        elif cur_clause is not None:
            cur_clause.text += "\n        " + st
        else:
            raise RsxError(f"{path}:{i+1}: cannot parse line: {ln!r}")
        i += 1
    return u


def _apply_defines(lines):
    """`@define NAME(a, b) body`  then  `$NAME(x, y)` anywhere later is replaced textually."""
    defs = {}
    out = []
    for ln in lines:
        m = re.match(r"\s*@define\s+(\w+)\(([^)]*)\)\s+(.*)$", ln)
        if m:
            defs[m.group(1)] = ([a.strip() for a in m.group(2).split(",") if a.strip()], m.group(3))
            continue
        for _ in range(6):
            changed = False
            for name, (params, body) in defs.items():
                k = ln.find("$" + name + "(")
                while k >= 0:
                    d, j = 0, k + len(name) + 1
                    while j < len(ln):
                        if ln[j] == "(":
                            d += 1
                        elif ln[j] == ")":
                            d -= 1
                            if d == 0:
                                break
                        j += 1
                    args = rsx._split_top(ln[k + len(name) + 2:j]) if params else []
                    rep = body
                    for pn, av in zip(params, args):
                        rep = re.sub(r"\b" + pn + r"\b", lambda _m, av=av: av, rep)
                    ln = ln[:k] + "(" + rep + ")" + ln[j + 1:]
                    changed = True
                    k = ln.find("$" + name + "(")
            if not changed:
                break
        out.append(ln)
    return out


def _apply_flags(lines):
    """`@flag NAME` (anywhere in the unit) switches on the lines written `@if NAME <line>` and switches off the
    lines written `@ifnot NAME <line>`: one shared part file can be verified from two sides (assume-guarantee)."""
    flags = {ln.split()[1] for ln in lines if ln.strip().startswith("@flag ") and len(ln.split()) > 1}
    out = []
    for ln in lines:
        st = ln.strip()
        if st.startswith("@flag "):
            continue
        m = re.match(r"@(if|ifnot)\s+(\w+)\s+(.*)$", st)
        if m:
            if (m.group(2) in flags) == (m.group(1) == "if"):
                out.append(m.group(3))
            continue
        out.append(ln)
    return out


def _read_with_imports(path, seen=()):
    out = []
    for ln in open(path).read().split("\n"):
        st = ln.strip()
        if st.startswith("@import "):
            p2 = os.path.join(VERIF, st.split(None, 1)[1].strip())
            if p2 in seen:
                raise RsxError(f"@import cycle at {p2}")
            out += _read_with_imports(p2, seen + (p2,))
        else:
            out.append(ln)
    return out


def _expand_foreach(lines):
    out, i = [], 0
    while i < len(lines):
        st = lines[i].strip()
        m = re.match(r"@foreach\s+(.+?)\s+in\s+(.*)$", st)
        if m:
            vars_ = m.group(1).split(",")
            vals = [v.split(",") for v in m.group(2).split()]
            depth, j, body = 1, i + 1, []
            while j < len(lines):
                s2 = lines[j].strip()
                if s2.startswith("@foreach "):
                    depth += 1
                elif s2 == "@endforeach":
                    depth -= 1
                    if depth == 0:
                        break
                body.append(lines[j])
                j += 1
            for val in vals:
                inst = []
                for b in body:
                    for vn, vv in zip(vars_, val):
                        b = b.replace("$" + vn.strip(), vv.replace("~", " "))
                    inst.append(b)
                out += _expand_foreach(inst)
            i = j + 1
            continue
        out.append(lines[i])
        i += 1
    return out


# ------------------------------------------------------------------------------------------------
_SHAPES = None


def _baseline_shapes():
    """contracts/baseline_shapes.json: per function under a loop contract, the sequence of loop kinds on the
    tree the contracts were written for (written by `./check --rebaseline`; absent = no check)."""
    global _SHAPES
    if _SHAPES is None:
        p = os.path.join(VERIF, "contracts", "baseline_shapes.json")
        _SHAPES = json.load(open(p)) if os.path.exists(p) else {}
    return _SHAPES


class Generated:
    def __init__(self):
        self.loop_shapes = {}
        self.text = ""
        self.functions = []   # dicts
        self.clauses = {}     # id -> {...}
        self.rule_log = []
        self.assumed = []
        self.dropped = []
        self.items = []


_src_cache = {}


def virtual_source(u, path, log):
    key = (path, tuple(sorted(u.macros)))
    if key in _src_cache:
        return _src_cache[key]
    full = os.path.join(REPO, path)
    if not os.path.exists(full):
        raise RsxError(f"source file not found: {path}")
    src = open(full).read()
    if path in u.expand_files:
        src = rsx.expand_invocations(src, u.macros, log)
        # the definitions of the expanded macros are blanked so that item headers inside a macro
        # body (`pub enum Definition { $(...)* }`) cannot be mistaken for the expanded item
        toks = rsx.tokenize(src)
        ed = rsx.Edits(src)
        for k in range(len(toks) - 3):
            if toks[k].text == "macro_rules" and toks[k + 1].text == "!" and toks[k + 2].text in u.macros \
                    and toks[k + 3].text in rsx.OPEN:
                cb = rsx.match_close(toks, k + 3)
                ed.add(toks[k].s, toks[cb].e, "", "R3")
        src, _ = ed.apply()
    _src_cache[key] = src
    return src


def format_contract(clauses, twin, indent="    "):
    groups = {}
    order = []
    for c in clauses:
        if c.kind not in groups:
            groups[c.kind] = []
            order.append(c.kind)
        groups[c.kind].append(c)
    canonical = ["requires", "recommends", "invariant_except_break", "invariant", "ensures", "loop_ensures",
                 "decreases", "when", "via", "no_unwind", "opens_invariants"]
    out = []
    for kind in sorted(order, key=canonical.index):
        kw = "ensures" if kind == "loop_ensures" else kind
        out.append(f"{indent}{kw}")
        for c in groups[kind]:
            cid = ",".join(c.ids) if c.ids else ""
            out.append(f"{indent}    /*@cl {cid}|{c.where}*/ {c.text},")
    return "\n".join(out)


def build_item(u, spec, twin, gen):
    log = []
    src = virtual_source(u, spec.path, log)
    gen.rule_log += [dict(rule=r, macro=n, args=a, file=spec.path) for (r, n, a) in log if
                     dict(rule=r, macro=n, args=a, file=spec.path) not in gen.rule_log]
    toks = rsx.tokenize(src)
    try:
        found = rsx.find_items(src, toks, spec.header)
    except RsxError as ex:
        raise RsxError(f"{spec.path} :: {spec.header}: {ex}")
    if len(found) < spec.ordinal:
        raise RsxError(f"item not found: {spec.path} :: {spec.header} (#{spec.ordinal}); found {len(found)}")
    if len(found) > 1 and spec.ordinal == 1 and not re.search(r"#\d+$", spec.header):
        # ambiguous only matters if the user did not pick one
        pass
    s, e, _, _ = found[spec.ordinal - 1]
    text = src[s:e]
    src_line = src.count("\n", 0, s) + 1
    itoks = rsx.tokenize(text)
    is_fn_item = re.match(r"\s*(pub\s+)?(const\s+)?(unsafe\s+)?fn\b", spec.header) is not None
    fns = rsx.scan_fns(text, itoks, top_level=is_fn_item)
    byname = {}
    for f in fns:
        byname.setdefault(f.name, []).append(f)
    ren0 = u.renames.get(spec.path, {})
    inv_ren = {v: k for k, v in ren0.items()}
    for nm in list(spec.fns) + list(spec.drops):
        if nm in inv_ren and inv_ren[nm] in byname:
            continue
        if nm not in byname:
            raise RsxError(f"{spec.path} :: {spec.header}: function `{nm}` not found (renamed or moved?)")

    ed = rsx.Edits(text)
    dropped_ranges = []
    # which fns are kept
    for f in fns:
        drop_reason = None
        if f.name in spec.drops:
            drop_reason = spec.drops[f.name] or "not needed by this unit"
        elif spec.only is not None and f.name not in spec.only and f.name not in spec.fns:
            drop_reason = "not needed by this unit"
        if drop_reason is not None:
            dropped_ranges.append((f.s, f.e))
            gen.dropped.append(dict(file=spec.path, item=spec.header, fn=f.name, reason=drop_reason))
    for (a, b) in dropped_ranges:
        ed.add(a, b, "", "DROP")

    def inside_dropped(a, b):
        return any(x <= a and b <= y for (x, y) in dropped_ranges)

    # rules (on original text)
    red = rsx.Edits(text)
    m = rules.mask(text)
    kept_fns = [f for f in fns if not inside_dropped(f.s, f.e)]
    skip = spec.skip_rules
    if "R1" not in skip:
        rules.r1_attributes(text, m, red)
    if "R2" not in skip:
        rules.r2_apit(text, m, red, kept_fns, dyn_too="R21" in spec.extra_rules)
    if "R4" not in skip:
        rules.r4_debug_assert_eq(text, m, red)
    if "R5" not in skip:
        rules.r5_unchecked(text, m, red)
    if "R6" not in skip:
        rules.r6_copy(text, m, red)
    if "R11" not in skip:
        rules.r11_paths(text, m, red, kept_fns)
    # R15: private items of different source modules that collide in the flat namespace are
    # renamed (definition and every use inside items of that file)
    ren = u.renames.get(spec.path, {})
    if ren:
        for t in itoks:
            if t.kind == "id" and t.text in ren:
                red.add(t.s, t.e, ren[t.text], "R15")
    for (old_t, new_t) in u.replaces.get(spec.path, []):
        k = m.find(old_t) if old_t in m else -1
        while k >= 0:
            red.add(k, k + len(old_t), new_t, "R16")
            k = m.find(old_t, k + len(old_t))
    for (rx, tmpl) in u.replaces_re.get(spec.path, []):
        for mm in re.finditer(rx, m):
            red.add(mm.start(), mm.end(), mm.expand(tmpl), "R16")
    for pref in u.strip_prefixes:
        for mm in re.finditer(r"(?<![\w:])" + re.escape(pref) + r"::((?:[a-z_][a-z0-9_]*::)*)(?=[A-Za-z_])", m):
            red.add(mm.start(), mm.end(), "", "R11")
    if "R10" not in skip:
        rules.r10_peekable(text, m, red)
    if "R13" not in skip:
        rules.r13_le_bytes(text, m, red)
    if "R14" not in skip:
        rules.r14_wild_params(text, m, red, kept_fns)
    if "R7" in spec.extra_rules:
        rules.r7_format(text, m, red)
    renamed_self = rules.r17_mut_self(text, m, red, kept_fns) if "R17" in spec.extra_rules else []
    if "R22" in spec.extra_rules:
        rules.r22_for_by_value_continue(text, m, red, kept_fns)
    if "R18" in spec.extra_rules:
        rules.r18_for_in_mut(text, m, red, kept_fns, renamed_self)
    # R8: default bodies of trait methods are dropped (the methods become required): a recording
    # visitor overrides all of them; the traversal code is untouched.
    if "R8" in spec.extra_rules:
        for f in kept_fns:
            if f.has_body:
                if text[f.body_s:f.body_e].replace(" ", "").replace("\n", "") != "{}":
                    raise RsxError(f"R8: default body of {f.name} is not empty")
                red.add(f.body_s, f.body_e, ";", "R8")
                f.has_body = False
                f.sig_end = f.body_s
    # R19: `E.map(|x| BODY)` on an Option, where the closure mutates captured state (no Verus support
    # for FnOnce closures capturing `&mut self`) -> `match E { None => None, Some(x) => Some(BODY) }`:
    # the definition of Option::map; refused if BODY contains `return` (it would leave the function
    # instead of the closure).
    for (recv, param) in spec.optmaps:
        head = f"{recv}.map(|{param}| "
        if text.count(head) != 1:
            raise RsxError(f"ANCHOR LOST (R19) in {spec.path} :: {spec.header}: `{head}` occurs {text.count(head)} times")
        a = text.index(head)
        open_paren = a + len(recv) + len(".map")
        ot = next(k for k, t in enumerate(itoks) if t.s == open_paren and t.text == "(")
        ct = rsx.match_close(itoks, ot)
        body_m = m[itoks[ot].e:itoks[ct].s]
        if re.search(r"\breturn\b", body_m):
            raise RsxError("R19: the closure body contains `return`")
        red.edits = [x for x in red.edits if not (a <= x[0] and x[1] <= a + len(head))]
        red.add(a, a + len(head), f"match {recv} {{ None => None, Some({param}) => Some(", "R19")
        red.add(itoks[ct].e, itoks[ct].e, " }", "R19", prio=9)
    # R12 anchored regions
    for (anchor, repl, rtag) in spec.rewrites:
        cnt = text.count(anchor)
        if cnt != 1:
            raise RsxError(f"ANCHOR LOST ({rtag}) in {spec.path} :: {spec.header}: anchor occurs {cnt} times: {anchor[:60]!r}")
        a = text.index(anchor)
        # rule edits inside the region are discarded
        red.edits = [x for x in red.edits if not (a <= x[0] and x[1] <= a + len(anchor))]
        red.add(a, a + len(anchor), repl, rtag)
    per_fn_rules = {}
    for (a, b, repl, rule, prio) in red.edits:
        if inside_dropped(a, b):
            continue
        ed.add(a, b, repl, rule, prio)
        for f in kept_fns:
            if f.s <= a and b <= f.e:
                per_fn_rules.setdefault(id(f), {}).setdefault(rule, 0)
                per_fn_rules[id(f)][rule] += 1

    # ghost members after the item's opening brace
    if spec.ghost:
        ob = next((t for t in itoks if t.text == "{"), None)
        if ob is None:
            raise RsxError(f"{spec.header}: no body for @ghost")
        ed.add(ob.e, ob.e, "\n" + "\n".join(spec.ghost) + "\n", "S-ghost", prio=-1)

    # contracts
    for f in kept_fns:
        fs = spec.fns.get(f.name)
        if fs is not None and len(byname[f.name]) > 1:
            raise RsxError(f"{spec.header}: function name `{f.name}` is ambiguous")
        is_assumed = fs is not None and fs.assume is not None
        lead = f"/*@fn {spec.path}|{spec.header}|{f.name}*/"
        if is_assumed:
            lead += "#[verifier::external_body] "
        for a in (fs.attrs if fs else []):
            lead += f"#[{a}] "
        # place marker right before the `fn` keyword's qualifiers: use the first token of the fn
        j, _st = rsx.item_start(text, itoks, f.fn_tok)
        # attributes removed by R1 may precede; insert before first *kept* token => before qualifiers
        qual_start = itoks[f.fn_tok].s
        q = f.fn_tok
        while q - 1 >= j and itoks[q - 1].kind == "id" and itoks[q - 1].text in rsx.PREFIX_WORDS:
            q -= 1
            qual_start = itoks[q].s
        if q - 1 >= j and itoks[q - 1].text == ")":
            # pub(crate): walk back to `pub`
            qq = q - 1
            while itoks[qq].text != "pub":
                qq -= 1
            qual_start = itoks[qq].s
        ed.add(qual_start, qual_start, lead, "S-marker", prio=-5)
        ed.add(f.e, f.e, "/*@endfn*/", "S-marker", prio=5)
        clauses = list(fs.clauses) if fs else []
        do_twin = twin and f.has_body and not is_assumed
        if fs and fs.stub and f.has_body:
            ed.edits = [x for x in ed.edits if not (f.body_s <= x[0] and x[1] <= f.body_e and x[3] != "DROP")]
            ed.add(f.body_s, f.body_e, "{ unimplemented!() }", "S-stub")
            for ti, t in enumerate(itoks):
                if f.params_open <= t.s < f.params_close and t.kind == "id" and t.text == "mut" \
                        and not (ti > 0 and itoks[ti - 1].text in ("&", ) or (ti > 0 and itoks[ti - 1].kind == "life")):
                    nxt = text[t.e:t.e + 1]
                    ed.edits = [x for x in ed.edits if not (t.s <= x[0] and x[1] <= t.e + 1)]
                    ed.add(t.s, t.e + (1 if nxt == " " else 0), "", "S-stub")
        if fs and not fs.returns and any(re.search(r"\br\b", c.text) for c in fs.clauses):
            fs.returns = "r"
        if fs and fs.returns:
            if f.ret_s is not None:
                ed.add(f.ret_s, f.ret_s, f"({fs.returns}: ", "S-ret", prio=-1)
                ed.add(f.ret_e, f.ret_e, ")", "S-ret", prio=1)
            else:
                ed.add(f.params_close, f.params_close, f" -> ({fs.returns}: ())", "S-ret")
        if clauses:
            ctext = "\n" + format_contract(clauses, False, "        ") + "\n    "
            ed.add(f.sig_end, f.sig_end, ctext, "S-contract", prio=2)
        if do_twin:
            # must-fail twin: the function's assumptions (requires, trait-level requires, type
            # invariants, broadcast axioms) must not be contradictory. The assertion sits at the
            # start of the body so that it is NOT exported to callers (an `ensures false` would make
            # every caller verify vacuously).
            ed.add(f.body_s + 1, f.body_s + 1, " proof { assert(false); } /*@vacuity*/ ", "S-twin", prio=-9)
        if fs and f.has_body and not is_assumed:
            lo, hi = f.tok_range
            # token indices of the body
            body_toks = [k for k in range(lo, hi + 1) if itoks[k].s >= f.body_s]
            lps = rsx.loops_in(text, itoks, body_toks[0], body_toks[-1])
            # LOOP SHAPE: the loop contracts were written for a particular sequence of loop kinds. If a change
            # restructures the loops (while -> loop+break, a loop added or removed) the invariants no longer
            # describe the code; a proof that then fails says nothing about the property. Such a function is
            # UNDECIDED at extraction (exit 2), and the property's bounded stand-in decides.
            kinds = [kw for (_, _, kw) in lps]
            shape_key = f"{spec.path}|{spec.header}|{f.name}"
            if fs.loops:
                gen.loop_shapes[shape_key] = kinds
            base = _baseline_shapes().get(shape_key)
            if fs.loops and base is not None and base != kinds:
                raise RsxError(f"LOOP SHAPE CHANGED in {spec.header}::{f.name}: the contract was written for loops {base}, the function now has {kinds}")
            for n, lspec in fs.loops.items():
                if n > len(lps):
                    raise RsxError(f"{spec.header}::{f.name}: loop #{n} not found (function has {len(lps)} loops)")
                kw_tok, brace_off, kw = lps[n - 1]
                if lspec["binder"]:
                    if kw != "for":
                        raise RsxError(f"{f.name}: binder on a non-for loop")
                    # find `in` token at depth 0 after the pattern
                    d, q = 0, kw_tok + 1
                    while True:
                        tt = itoks[q]
                        if tt.kind == "p" and tt.text in rsx.OPEN:
                            d += 1
                        elif tt.kind == "p" and tt.text in rsx.CLOSE:
                            d -= 1
                        elif tt.kind == "id" and tt.text == "in" and d == 0:
                            break
                        q += 1
                    ed.add(itoks[q].e, itoks[q].e, f" {lspec['binder']}:", "S-binder")
                ltxt = "\n" + format_contract(lspec["clauses"], False, "            ") + "\n        "
                ed.add(brace_off, brace_off, ltxt, "S-loop", prio=2)
            for (where, anchor, htext) in fs.hints:
                if where == "bodystart":
                    ed.add(f.body_s + 1, f.body_s + 1, "\n" + htext + "\n", "S-hint", prio=3)
                    continue
                if where == "bodyend":
                    # in front of the closing brace of the body (the fall-through exit)
                    ed.add(f.body_e - 1, f.body_e - 1, htext + "\n    ", "S-hint", prio=-3)
                    continue
                if where == "return":
                    # in front of the n-th `return` keyword of the body (closures and nested fns included in the count)
                    rets = [k for k in body_toks if itoks[k].kind == "id" and itoks[k].text == "return"]
                    if anchor < 1 or anchor > len(rets):
                        raise RsxError(f"HINT ANCHOR LOST in {spec.header}::{f.name}: `return` #{anchor} (function has {len(rets)})")
                    ed.add(itoks[rets[anchor - 1]].s, itoks[rets[anchor - 1]].s, htext + "\n            ", "S-hint", prio=-3)
                    continue
                if where in ("loopstart", "loopend", "loopbefore"):
                    if anchor > len(lps):
                        raise RsxError(f"{spec.header}::{f.name}: loop #{anchor} not found for @hint (function has {len(lps)} loops)")
                    _kw_tok, brace_off, _kw = lps[anchor - 1]
                    if where == "loopbefore":
                        # in front of the loop statement (its keyword, or its label when it has one)
                        kt = _kw_tok
                        if itoks[kt - 1].kind == "p" and itoks[kt - 1].text == ":" and itoks[kt - 2].kind == "life":
                            kt -= 2
                        ed.add(itoks[kt].s, itoks[kt].s, htext + "\n        ", "S-hint", prio=-3)
                        continue
                    if where == "loopstart":
                        ed.add(brace_off + 1, brace_off + 1, "\n" + htext + "\n", "S-hint", prio=3)
                    else:
                        bt = next(k for k, t in enumerate(itoks) if t.s == brace_off)
                        cl = itoks[rsx.match_close(itoks, bt)].s
                        ed.add(cl, cl, htext + "\n", "S-hint", prio=-3)
                    continue
                body = text[f.body_s:f.body_e]
                cnt = body.count(anchor)
                if cnt != 1:
                    raise RsxError(f"HINT ANCHOR LOST in {spec.header}::{f.name}: `{anchor}` occurs {cnt} times")
                pos = f.body_s + body.index(anchor)
                if where == "after":
                    pos += len(anchor)
                    ed.add(pos, pos, "\n" + htext + "\n", "S-hint", prio=3)
                else:
                    ed.add(pos, pos, htext + "\n", "S-hint", prio=-3)
            for (names, clause, bound) in fs.guards:
                # R20 guarded calls: `X.name(ARG)` / `P::name(ARG)`  =>  `X.name({ let r20_n: usize = ARG;
                # assert(r20_n <= BOUND); r20_n })`. The match is on the callee's NAME, so editing the argument
                # cannot lose it, a reserving call that is added is guarded too, and one that is removed
                # leaves no obligation (no reservation, nothing to bound).
                for k in body_toks:
                    t = itoks[k]
                    if t.kind == "id" and t.text in names and itoks[k + 1].kind == "p" and itoks[k + 1].text == "(" \
                            and itoks[k - 1].kind == "p" and itoks[k - 1].text in (".", ":"):
                        cl = rsx.match_close(itoks, k + 1)
                        if cl == k + 2:
                            continue
                        if any(itoks[q].kind == "p" and itoks[q].text == "," and rsx_depth0(itoks, k + 1, q) for q in range(k + 2, cl)):
                            raise RsxError(f"{spec.header}::{f.name}: guarded call `{t.text}` has more than one argument")
                        ed.add(itoks[k + 1].e, itoks[k + 1].e, "{ let r20_n: usize = ", "R20", prio=4)
                        ed.add(itoks[cl].s, itoks[cl].s, f";\n            assert(r20_n <= {bound}); /*@cl {clause}|obligation*/\n            r20_n }}", "R20", prio=-4)
                        per_fn_rules.setdefault(id(f), {})["R20"] = per_fn_rules.get(id(f), {}).get("R20", 0) + 1
        elif fs and fs.loops and not f.has_body:
            raise RsxError(f"{f.name}: loop contract on a bodiless fn")
        rules_here = per_fn_rules.get(id(f), {})
        gen.functions.append(dict(
            file=spec.path, item=spec.header, fn=f.name,
            src_line=src_line + text.count("\n", 0, itoks[f.fn_tok].s),
            has_body=f.has_body, assumed=fs.assume if is_assumed else None,
            contracted=bool(fs and (fs.clauses or fs.loops)),
            body_sha=rsx.sha(text[f.body_s:f.body_e]) if f.has_body else None,
            verbatim=not rules_here, rules=rules_here,
            clause_ids=[c.ids[0] for c in (fs.clauses if fs else []) if c.ids],
        ))
        if is_assumed:
            gen.assumed.append(dict(file=spec.path, item=spec.header, fn=f.name, reason=fs.assume))
    new, _ = ed.apply()
    # item-level (non-fn) rule applications
    gen.items.append(dict(file=spec.path, header=spec.header, src_line=src_line,
                          rules={k: v for k, v in red.counts().items()}))
    return f"// @item {spec.path} :: {spec.header} (source line {src_line})\n" + new.strip("\n") + "\n"


def rsx_depth0(itoks, open_k, q):
    """True when token q sits directly inside the bracket opened at open_k (not in a nested one)."""
    d = 0
    for j in range(open_k + 1, q):
        t = itoks[j]
        if t.kind == "p" and t.text in rsx.OPEN:
            d += 1
        elif t.kind == "p" and t.text in rsx.CLOSE:
            d -= 1
    return d == 0


def generate(unit_path, twin=False):
    u = parse_vspec(unit_path)
    gen = Generated()
    body = []
    for kind, val in u.parts:
        if kind == "include":
            p = os.path.join(VERIF, val)
            body.append(f"// @include {val}\n" + open(p).read())
        elif kind == "raw":
            body.append(val)
        else:
            body.append(build_item(u, val, twin, gen))
    head = "#![allow(unused_imports, dead_code, unused_variables, unused_mut, unused_unsafe, unreachable_code, unused_assignments, non_camel_case_types, unused_parens, unused_braces)]\n"
    if u.features:
        head += "#![feature(" + ", ".join(dict.fromkeys(u.features)) + ")]\n"
    head += "use vstd::prelude::*;\n" + "\n".join(u.header) + "\n"
    if u.broadcast:
        body.insert(0, "broadcast use {" + ", ".join(dict.fromkeys(u.broadcast)) + "};")
    gen.text = head + "verus! {\n\n" + "\n\n".join(body) + "\n\n} // verus!\nfn main() {}\n"
    gen.unit = u
    return gen


def index_markers(text):
    """Scan generated text for function and clause markers -> line tables."""
    fns, clauses = [], []
    cur = None
    for ln_no, ln in enumerate(text.split("\n"), 1):
        for m in re.finditer(r"/\*@(fn|endfn|cl)\s?([^*]*)\*/", ln):
            k, v = m.group(1), m.group(2)
            if k == "fn":
                p, h, n = v.split("|")
                cur = dict(file=p, item=h, fn=n, start=ln_no, end=None)
                fns.append(cur)
            elif k == "endfn" and cur is not None:
                cur["end"] = ln_no
                cur = None
            elif k == "cl":
                cid, where = v.split("|")
                clauses.append(dict(id=cid, where=where, line=ln_no, text=ln[m.end():].strip(),
                                    fn=(cur or {}).get("fn")))
    return fns, clauses


def write_unit(unit_name, twin=False, outdir=None):
    outdir = outdir or os.path.join(VERIF, "build")
    os.makedirs(outdir, exist_ok=True)
    gen = generate(os.path.join(VERIF, "contracts", unit_name + ".vspec"), twin)
    suffix = "_twin" if twin else ""
    out_rs = os.path.join(outdir, unit_name + suffix + ".rs")
    open(out_rs, "w").write(gen.text)
    fns, clauses = index_markers(gen.text)
    scan = {}
    for kw in ("external_body", "assume_specification", "assume(", "admit(", "uninterp", "axiom",
               "external_type_specification", "external_fn_specification", "#[verifier::external]",
               "#[verifier::exec_allows_no_decreases_clause]", "#[verifier::assume_termination]"):
        scan[kw] = len(re.findall(re.escape(kw), rules.mask(gen.text)))
    meta = dict(unit=unit_name, twin=twin, props=gen.unit.props, file=out_rs, functions=gen.functions,
                fn_lines=fns, clauses=clauses, rule_log=gen.rule_log, assumed=gen.assumed,
                dropped=gen.dropped, items=gen.items, trusted=gen.unit.trusted, assumption_scan=scan)
    json.dump(meta, open(os.path.join(outdir, unit_name + suffix + ".map.json"), "w"), indent=1)
    return out_rs, meta


if __name__ == "__main__":
    try:
        rs, meta = write_unit(sys.argv[1], twin="--twin" in sys.argv)
        print(rs, len(meta["functions"]), "functions", len(meta["clauses"]), "clauses")
    except RsxError as ex:
        print("UNDECIDED (extraction):", ex, file=sys.stderr)
        sys.exit(2)
