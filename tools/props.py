"""Per-property configuration: which Verus units and Kani harnesses carry its obligations."""

KANI_BOUNDS = {
    "kb_vec_target_ops": "vector length <= 3, spare capacity <= 4, operand <= 3, one operation (plus follow-up writes into the reservation)",
    "kb_decode_vec_u8_any_bytes": "every byte string of length <= 5",
    "kb_vec_u16_roundtrip": "sequences of <= 2 u16 elements",
    "kb_dict_roundtrip_1": "BTreeMap<u8,u8> with exactly 1 entry (encode only)",
    "kb_slice_target_ops": "capacity <= 6, operand length <= 4, one operation from an arbitrary reachable state",
    "kb_slice_source_ops": "buffer length <= 6, request <= 4, one operation from an arbitrary reachable state",
}

K_VARINT = ["k_encode_varuint_contract", "k_encode_size_contract", "k_encode_varint_contract",
            "k_decode_varuint_u32_any_bytes", "k_decode_varuint_u64_any_bytes", "k_decode_varuint_usize_any_bytes", "k_decode_varuint_i32_any_bytes",
            "k_decode_varint_i32_any_bytes", "k_decode_varint_i64_any_bytes",
            "k_varint_roundtrip", "k_varuint_roundtrip"]
K_FIXED = ["k_fixed_u8", "k_fixed_i8", "k_fixed_u16", "k_fixed_i16", "k_fixed_u32", "k_fixed_i32", "k_fixed_u64",
           "k_fixed_i64", "k_fixed_f32", "k_fixed_f64", "k_bool_contract"]

CODEC_TRUSTED = [
    "R5 shim_as_array / R6 shim_copy_nonoverlapping: precondition = safety condition of the unsafe call (Kani kb_slice_* run the unmodified unsafe code under pointer checks)",
    "R13 ShimLe::{shim_to_le_bytes, shim_from_le_bytes}: std to_le_bytes/from_le_bytes are the little-endian layout of the bit pattern (Kani k_fixed_* compare the real encoder/decoder with a shift/mask oracle for every value)",
    "encode_varint / encode_varuint / decode_varint / decode_varuint bodies: external_body in Verus, contract discharged by Kani k_encode_* / k_decode_*_any_bytes (full domain); wire_ref.rs == specs/wire.rs proved in Verus (unit wire_lemmas)",
    "spec_into_i64/u64, spec_try_from_int/nat axioms: std integer widening is value preserving, narrowing TryFrom is a range check",
    "Vec::try_reserve_exact (capacity exactly len+additional when it grows -- std RawVec behaviour, not promised by the docs), spare_capacity_mut/set_len shims, String::from_utf8, HashMap::try_reserve: assumed std contracts",
    "vstd's HashMap/BTreeMap/Vec/str specifications (obeys_key_model, key_obeys_cmp_spec, encode_utf8/valid_utf8)",
    "axiom: a slice's length fits in usize",
]

PROPS = {
    "C03": dict(
        units=["ast_lookup", "ast_node"],
        claim="Ast::find_node_with_scope (real text) returns exactly the entity the scoping rules designate - innermost enclosing scope "
              "outwards, global scope last, a leading '::' looked up globally only - or an error; the lookup table's representation invariant "
              "(every index designates an element) is preserved by add_named_element, which makes the element retrievable under its fully scoped "
              "name; the 46 TryFrom<&Node> conversions succeed exactly for the matching kind (for type references: exactly the eight kinds that are types).",
        trusted=["table_key_facts: String/str Borrow+Hash+Eq agreement for HashMap<String,usize> lookups; Strings are determined by their characters",
                 "R12 regions in find_node_with_scope: strip_prefix(\"::\"), scope.split(\"::\").collect() (segments: uninterpreted scope_segments), scopes.join(\"::\") + \"::\" + id (= candidate_name)",
                 "Ast::find_node: ASSUMED contract (closure passed to Option::map needs a closure-level requires)", "Ast::create (vec!/HashMap::from literals) establishes wf: not extracted",
                 "OwnedPtr/WeakPtr (ptr_util), NamedSymbol::parser_scoped_identifier accessor, ccase!/to_string message text, downgrade_as! pointer upcast"],
        not_claimed=["TypeRefPatcher (compute_patches / resolve_definition / alias flattening / attribute accumulation / WHICH scope string is passed): closures, dyn, unsafe mutation - outside this technique",
                     "Scope::push_scope/pop_scope (byte-index String surgery + cfg(debug_assertions) closures)"],
    ),
    "C04": dict(
        units=["rules_simple"],
        claim="The closure-free rule functions (real text) are verified against the rule statements of the property: each appends exactly one "
              "error of ITS code per violation and nothing else (compact structs non-empty; compact types untagged - structs and enum fields; "
              "underlying types integral and non-optional; no fields under an underlying type; checked enums non-empty; compact enums neither backed "
              "nor unchecked; no alias of an optional type; tags within 0..2^31-1; return tuples of at least two), the primitive bounds table equals "
              "[-2^(n-1), 2^(n-1)-1] / [0, 2^n-1], and validate_struct / validate_enum / validate_type_alias and the ValidatorVisitor dispatch REJECT every element violating one of these rules.",
        trusted=["assumed accessors (fields(), enumerators(), span(), identifier(), kind(), is_tagged(), TypeRef<Primitive> deref): Container::contents is an iterator adapter; they return the targets in order",
                 "Diagnostic builder methods set_span/add_note/set_scope (`mut self`): kind and level unchanged (signature-only stubs)",
                 "the validators NOT under contract are assumed append-only: validate_attributes, validate_common_doc_comments, validate_members, validate_parameters, validate_operation, validate_dictionary, validate_inherited_identifiers, backing_type_bounds, enumerator_values_are_unique",
                 "format! (native vstd spec), RangeInclusive::contains shim, WeakPtr::borrow, concrete_type accessor"],
        not_claimed=["SUBSET of the rule catalogue: enumerator value range (backing_type_bounds::check_bounds), tagged-members-must-be-optional, tag and enumerator-value uniqueness, redefinition scan, stream parameter rules, dictionary key rules, inherited-operation shadowing, attribute rules, module-before-definitions (parse_file tail): closures / iterator adapters / sort_by_key / windows",
                     "the completeness direction (a program satisfying all rules is accepted) needs the whole pipeline",
                     "the join with C20 (every element is visited) is stated, not mechanised: per-element dispatch contracts only"],
    ),
    "C08": dict(
        units=["schema_encoders", "codec_wire"],
        kani_quick=["k_encode_varint_contract", "k_encode_size_contract"],
        kani_thorough=["kb_vec_target_ops"],
        claim="All 21 hand-written EncodeInto impls of slicec/src/definition_types.rs (real text, macro-expanded) are verified to append exactly the "
              "encoding the SHIPPED schema prescribes - the oracle enc_<T> is generated on every run from slice/Compiler/*.slice (field order, bit-sequence "
              "byte for optional fields, varint32? tags, enum discriminant = position in the schema, tagged-field end marker); Arguments == "
              "Dictionary<string,string> in the order written; encode_generate_code_request returns exactly \"generateCode\" ++ Sequence(sources) ++ "
              "Sequence(references) with the source/reference split by is_source and order preserved; GeneratedFile / DiagnosticLevel decoders (codec_wire).",
        trusted=CODEC_TRUSTED + ["specs/schema_gen.py (the ~200-line schema reader/oracle generator; stops with exit 2 on any construct outside the subset the three files use, and on any field-name/count mismatch with definition_types.rs)",
                 "R12 regions: the unsafe `*<*const _>::from(self).cast::<u8>()` discriminant read = the `= N` written on the #[repr(u8)] enum (RFC 2195 layout)",
                 "VecOutputTarget's five operations: trait contract ASSUMED here (unsafe MaybeUninit code; bounded Kani stand-in kb_vec_target_ops)",
                 "slice_file_converter.rs (AST -> schema types): `definition_types::SliceFile::from` is an uninterpreted pure function"],
        not_claimed=["that the decoded content EQUALS the compiled program for named entities (slice_file_converter.rs: closures over .map().collect(); the @returns-documentation defect named in the property is there)",
                     "anonymous-type numeric id discipline (get_type_id_for / convert_type_ref group): not under contract in this round",
                     "decodability lemma dec(enc(v)) for the schema types (follows the C10 pattern; not written)", "Diagnostic::decode_from (closure capturing &mut decoder)"],
    ),
    "C09": dict(
        units=["locations"],
        claim="The cursor arithmetic of the preprocessor lexer and of the Slice lexer (advance_buffer, advance_to_end_of_line, skip_*; real text) "
              "is verified against `cursor == advance_all(start, consumed characters)`: rows and columns start at 1 and count CHARACTERS (not "
              "bytes), '\\n' moves to column 1 of the next row, nothing is consumed at end of buffer, byte positions advance by len_utf8, no "
              "overflow, loops terminate; in the Slice lexer the start is the source block's ORIGINAL location (what keeps surviving text in place).",
        trusted=["R10 PeekChars / PeekCharIndices shims", "str_facts axioms: a str has fewer than usize::MAX/2 characters/bytes; UTF-8 length of a prefix <= whole; 1 <= len_utf8 <= 4",
                 "Slice lexer: the block start has col >= 1 and start + content length does not overflow (established by the preprocessor lexer; part of wf, assumed at construction)"],
        not_claimed=["TIGHTNESS of spans (the @L/@R placement in the LALRPOP grammars and the generated parsers) - the three span-edge defects named in the property live there",
                     "Location::is_within and Span + Span (derived Ord; no vstd spec for Ordering comparison)", "the comments lexer's cursor, create_doc_comment's `col - 3`, get_snippet / get_highlight (snippet rendering, tabs, CRLF)",
                     "read_identifier / create_source_block_token (byte-range str slicing has no Verus support)"],
    ),
    "C06": dict(
        units=["preproc"],
        claim="Term::evaluate, Expression::evaluate, Conditional::evaluate and process_nodes (slicec/src/parsers/preprocessor/grammar.rs, "
              "real text) are verified against the conditional-compilation semantics written from the property.",
        trusted=["axiom_str_key / axiom_str_key_removed: String/str Borrow+Hash+Eq agreement (std)",
                 "nesting_facts: the preprocessor AST is a finite tree (uninterpreted height with the two facts every finite tree satisfies)",
                 "preprocessor lexer (which lines are directives), LALRPOP-generated parser and its error recovery, Slice lexer restart at the block's start location"],
        not_claimed=["which lines are directives / malformed-directive recovery (lexer + generated parser)", "location preservation of surviving text (lexer cursor arithmetic is under C09's unit)",
                     "cross-file isolation is by ownership typing (symbols.clone() per file) - noted, no obligation"],
    ),
    "C07": dict(
        units=["diag_gate"],
        claim="main() (real text, process-I/O regions replaced by contract-carrying stubs) starts generators iff the compilation produced no error "
              "diagnostic and --dry-run is off, and returns a non-zero status iff an error diagnostic is emitted; Diagnostic::new establishes "
              "level==Error <=> kind is Error; get_totals counts levels; compile_from_options parses nothing after a file error.",
        trusted=["R12 regions of main(): clap parsing, encode_generate_code_request (C08), the generator spawn/collect/write region (C18), emit_diagnostics/emit_totals (C14)",
                 "Diagnostics::has_errors (iterator adapter + closure): assumed `r <==> exists error kind`",
                 "Diagnostics::into_updated (C13's logic): assumed FRAME only (same length and kinds; only lints change level, only to Allowed)",
                 "CompilationState::apply / apply_unsafe (function-pointer parameters are not representable): the per-phase gating inside compile_files is NOT verified",
                 "every Diagnostic reaching main was built by Diagnostic::new (only constructor; private fields) and builder methods do not touch kind/level (`mut self` receivers are not parseable)",
                 "Vec::extend appends (shim_vec_extend); derived Default of Diagnostics is empty"],
        not_claimed=["phase gating inside compile_files (apply/apply_unsafe)", "what happens inside the generator region (C18)", "exit status 79 path emits an error TEXT, not a diagnostic"],
    ),
    "C17": dict(
        units=["fileset", "diag_gate"],
        claim="remove_duplicate_file_paths and resolve_files_from (slicec/src/utils/file_util.rs, real text) are verified: a list is reduced to the "
              "first occurrence of every file (same file = equal canonical path), order kept, with exactly one DuplicateFile lint per dropped "
              "repeat carrying that repeat's spelling; the compiled set is dedup(sources) ++ [reference not already present]; every SliceFile is "
              "made, in order, from an entry of that set with its spelling and source flag. compile_from_options (diag_gate) parses nothing after a file error.",
        trusted=["the OS-facing half: find_slice_files / find_slice_files_in_path / _in_directory / is_slice_file (existence, .slice extension, directory recursion), PathBuf::canonicalize (symlinks, spelling), fs::read_to_string",
                 "PathBuf == PathBuf is an equivalence relation (path_facts axiom); FilePath's PartialEq is declared to vstd as that relation (ghost PartialEqSpecImpl) and its one-line body is verified against it",
                 "<[T]>::contains: true iff some element compares equal (assume_specification); Vec::extend appends (shim)",
                 "SliceFile::new records the path and flag it is given (opaque record with ghost accessors)"],
        not_claimed=["which paths exist / are Slice files / what a directory contains (file system)", "that unreadable files produce exactly one E001 (the Err arm is verified panic-free only)"],
    ),
    "C19": dict(
        units=["plugin_args"],
        claim="plugin_parser (slicec/src/slice_options.rs, real text incl. the re-targeted `&mut String` buffer) is verified for EVERY input "
              "string against spec_parse, the generator-specification syntax written from the property: Ok <=> spec accepts, and then path and "
              "(key, value) pairs are exactly the spec's, trimmed, in order; empty path / empty key / second unescaped '=' / empty string are "
              "rejected; no reachable panic; terminates.",
        trusted=["R10 PeekChars shim for `s.chars().peekable()` (thin wrapper over std)",
                 "str::trim = uninterpreted spec_trim (idempotent); String::push / to_owned / is_empty: vstd specs",
                 "R12 region: `.into_iter().map(|(k, v)| (k.trim().to_owned(), v.trim().to_owned())).collect()` -> shim_trim_pairs (element-wise trim, order kept) -- a closure with a tuple pattern is not accepted by this Verus",
                 "clap passes the raw option value to plugin_parser and reports its Err as a usage error; spawn_plugin_process forwards args (C08/C18)"],
        not_claimed=["the render/parse round-trip lemma over the spec (escaping of ',' and '=') is not yet written; spec_parse itself is the oracle",
                     "arguments' onward journey to the generator (Arguments encoding is C08's contract)"],
    ),
    "C20": dict(
        units=["visitor"],
        claim="All twelve visit_with implementations of slicec/src/visitor.rs (real text) are verified to present, to ANY visitor, exactly the "
              "event sequence tr_file/tr_struct/... written from the property: file, module, definitions in source order, containers before "
              "contents, each type right after its owner followed by its nested element/key/value/success/failure types to any depth.",
        trusted=["WeakPtr<T>::borrow returns the element the parser stored (utils/ptr_util.rs raw pointers: trusted, pure function of the pointer)",
                 "TypeRef::concrete_type() (Deref + dyn dispatch) is a pure accessor (shim_concrete_type)",
                 "type_depth_facts: nesting of sequence/dictionary/result types is finite (uninterpreted depth, one axiom)",
                 "the AST has the ownership shape the structs describe (built by the parser); element internals (Identifier, Scope, Span, Attribute, DocComment...) are opaque"],
        not_claimed=["that ValidatorVisitor's visit_x bodies do the right thing (C04)", "that the parser put every declared element into its owner's list (C02)"],
    ),
    "C10": dict(
        units=["codec_wire", "wire_lemmas"],
        kani_quick=K_VARINT + K_FIXED,
        kani_thorough=["kb_vec_u16_roundtrip"],
        claim="Every EncodeInto / DecodeFrom implementation of slice-codec for bool, fixed-width numbers, floats, "
              "variable-width integers, sizes, strings and sequences is under contract against the wire-format spec "
              "(specs/wire.rs, written from the property): encoders append exactly enc(value); decoders accept only "
              "is_dec(bytes, value, consumed); round trip dec(enc(x)++tail) is a lemma over the spec. Bit-level leaf "
              "functions are discharged by complete Kani harnesses over the full machine domain.",
        trusted=CODEC_TRUSTED,
        not_claimed=["dictionary ENCODING (for-loop over a map: Verus' ghost-iterator invariant fails) -- bounded Kani stand-in only, so the dictionary round trip is bounded",
                     "tokio/bytes feature code (not compiled by slicec)"],
    ),
    "C11": dict(
        units=["codec_wire", "codec_buffer", "codec_error"],
        kani_quick=["k_decode_varuint_u32_any_bytes", "k_decode_varuint_u64_any_bytes", "k_decode_varuint_usize_any_bytes",
                    "k_decode_varuint_i32_any_bytes", "k_decode_varint_i32_any_bytes", "k_decode_varint_i64_any_bytes", "k_bool_contract"],
        kani_thorough=["kb_decode_vec_u8_any_bytes"],
        claim="Every decode function is verified with no precondition other than the source's representation invariant, "
              "so for ALL byte strings: data unchanged, cursor moves forward inside the buffer (no over-read: every "
              "indexing/copy obligation proved), no reachable panic, strict bool/UTF-8/range/duplicate-key rejection, "
              "allocation bounded by the remaining input (String; Vec/HashMap are known findings), every error renders.",
        trusted=CODEC_TRUSTED + ["global allocator behaviour on a failed reservation", "wall-clock / RSS are not contract-expressible: the resource clause bounds requested bytes and loop iterations"],
        not_claimed=["definition_types.rs DecodeFrom for GeneratedFile/Diagnostic is carried by C08's unit", "handle_generator_response (process I/O region)"],
    ),
    "C12": dict(
        units=["codec_buffer"],
        kani_quick=[],
        kani_thorough=["kb_slice_target_ops", "kb_slice_source_ops", "kb_vec_target_ops"],
        claim="Every function of slice-codec/src/buffer/slice.rs (fixed-slice output target, slice input source) is "
              "verified by Verus against an append-only-log / whole-buffer-frame contract, for unbounded capacity "
              "and operand length; the trait-level contracts of OutputTarget/InputSource are what generic callers see.",
        trusted=["R5/R6 shims: shim_as_array, shim_copy_nonoverlapping (precondition = safety condition of the unsafe call)",
                 "VecOutputTarget (buffer/vec.rs): unsafe over MaybeUninit/set_len -- bounded Kani stand-in only (thorough tier)"],
        assumptions=["machine fact axiom: a slice's length fits in usize"],
        not_claimed=["VecOutputTarget beyond the Kani bound", "allocator behaviour"],
    ),
}


# ---- properties not claimed (kept current; one-line reasons appear in MANIFEST.not_applicable) ----
NOT_APPLICABLE = {
    "C02": "Source-to-AST fidelity is a relation between a token stream and the tree built by ~10k lines of LALRPOP-generated LR tables plus action code threading raw OwnedPtr/WeakPtr and closures; no function within Verus's or Kani's reach carries it, and layout-independence is a relational (two-run) property.",
    "C05": "Cycle detection is a DFS over &dyn CycleCandidate trait objects, HashSet<BTreeSet<String>> and the raw-pointer AST; alias and inheritance closures recurse through iterator closures - unsupported by Verus, and string-keyed graphs are beyond Kani.",
    "C13": "The whole decision lives in Diagnostics::into_updated (mut self, for..in &mut, nested fns over iter().any/filter_map, dyn Entity lookups), none of which this Verus accepts; 'adding a suppression changes nothing else' is a two-run relation.",
    "C14": "Emission is terminal/serde I/O (console, serde_json::Serializer, writeln!); byte-level output format is not expressible as a contract over code the verifiers can see (totals/exit-status agreement is covered under C07).",
    "C15": "Reproducibility and order-independence are hyperproperties relating two executions of the whole pipeline (and a process's hash seeds); contracts here speak about one call.",
    "C16": "Comment text handling is sanitize_message_lines/construct_section_message (closures, flat_map, byte-offset replace_range on String) and a LALRPOP grammar; no string-level reasoning is available in Verus for it and Kani cannot carry symbolic strings.",
    "C18": "Generator supervision is process spawning, pipes, exit statuses and the file system (std::process, std::fs); nothing there is within a deductive verifier's reach.",
}

MANIFEST_TEXT = {
    "C08": dict(
        level="Proof (Verus) of ENCODER CONFORMANCE AND REQUEST FRAMING: every EncodeInto impl of definition_types.rs appends exactly enc_<T>(value), where enc_<T> is generated on every run from the schema shipped in slice/Compiler (so a field reordered, a forgotten end marker, a wrong discriminant or bit-sequence fails a named obligation); encode_generate_code_request's result (through the growable target, tied by a prophecy to the returned Vec) is name ++ sources ++ references with the split and orders preserved. The AST->schema conversion of named entities is trusted, so 'decoded content equals the compiled program' is NOT claimed.",
        design_ref="DESIGN.md section 7, C08", technique="generated oracle (schema -> Verus spec fns) + Verus trait contracts on macro-expanded real impls + prophecy for the borrowed output buffer",
        note="Partial claim (stated). Assumed: schema_gen.py, repr(u8) layout, VecOutputTarget operations, the converter."),
    "C09": dict(
        level="Proof (Verus) of the CURSOR ARITHMETIC only: for the preprocessor lexer and the Slice lexer, every cursor-moving function preserves the representation invariant `cursor == advance_all(start location, characters consumed so far)` (columns count characters, rows/cols from 1, newline resets the column) and `position == UTF-8 byte length of the consumed characters`; no overflow; termination. Span tightness (grammar @L/@R placement), span algebra and snippet rendering are not claimed.",
        design_ref="DESIGN.md section 7, C09", technique="Verus representation invariant over the lexer state + ghost `consumed` view; recursive spec of location advancement",
        note="Partial claim (stated). Assumed: peekable shims, string length bounds, block start bounds."),
    "C04": dict(
        level="Proof (Verus) for a stated SUBSET of the rule catalogue: 12 closure-free rule functions + the primitive bounds table are verified against rule predicates written from the property - `appended(old, new, n_rule(element), k_rule)`: exactly one diagnostic of the rule's own code per violation, nothing else touched; validate_struct/enum/type_alias and ValidatorVisitor::visit_struct/enum/type_alias reject every element violating one of them. Rules implemented with closures/adapters (value ranges, uniqueness, stream, dictionary keys, shadowing, attributes) are trusted and named in the evidence.",
        design_ref="DESIGN.md section 7, C04", technique="Verus contracts on extracted real functions; loop invariants over prophetic iterator views; counting spec functions; sequencing lemmas",
        note="Partial claim (stated): subset of rules, soundness direction per element. Assumed: element accessors, builder stubs, append-only contracts of the other validators."),
    "C17": dict(
        level="Proof (Verus) of the SELECTION LOGIC: remove_duplicate_file_paths == dedup (first occurrences, order kept; lemmas: no two equal, every input represented) with one DuplicateFile lint per dropped repeat, spelling preserved, in order; resolve_files_from builds its files, in order, from compiled_set = dedup(sources) ++ references not already present (so a file listed as source and reference is compiled once, as a source, with no lint for the cross-list repeat); each SliceFile keeps spelling and is_source. File-system behaviour is trusted.",
        design_ref="DESIGN.md section 7, C17", technique="Verus contracts on extracted real functions; loop invariants over prophetic iterator views (history ++ remaining); spec lemmas",
        note="Partial claim (stated): selection logic, not the file-system walk. Assumed: canonical-path equality is an equivalence; slice::contains; find_slice_files as an uninterpreted function of (paths, flag)."),
    "C03": dict(
        level="Proof (Verus) of the LOOKUP DISCIPLINE only: find_node_with_scope == resolve (spec written from the property: innermost scope outwards, global last, '::' prefix global only) for all tables/scopes/names; add_named_element preserves the table invariant, writes exactly one entry (whole-table postcondition) and makes the element retrievable by its scoped name; 46 Node conversions: Ok <=> the node has the requested kind. The patcher that decides WHICH name/scope is looked up, alias flattening and attribute carrying are trusted.",
        design_ref="DESIGN.md section 7, C03", technique="Verus contracts on extracted real functions; loop invariant against a recursive spec; representation invariant; macro-expanded impls under a generated contract family",
        note="Partial claim (stated): lookup discipline and kind checks, not the TypeRefPatcher. Assumed: string-key map axioms, split/join/strip_prefix regions, find_node's closure, pointer shims."),
    "C19": dict(
        level="Proof (Verus, every input string): plugin_parser's real text - state machine over a peekable char iterator with a re-targeted &mut String buffer - is verified against spec_parse (split at unescaped ',', path may contain '=', first unescaped '=' splits key/value, a second one is an error, backslash escapes only ',' and '=', one trailing comma ignored, components trimmed, empty path/key rejected): r is Ok ==> result == spec, r is Err ==> spec rejects; no panic (the pinned tree's assert on the empty string was a defect, repaired); termination.",
        design_ref="DESIGN.md section 7, C19", technique="Verus loop invariant with ghost specification state stepped in lock-step; prophecy variables for the live re-targeted borrow",
        note="Assumed: PeekChars shim, str::trim as uninterpreted idempotent function, the map/collect trimming region. Round-trip lemma render->parse over the spec not written."),
    "C07": dict(
        level="Proof (Verus): on main()'s real control flow (I/O regions replaced by stubs whose PRECONDITION is the permission to run generators) - generators_ran <==> (no error diagnostic from compilation && !dry_run), exit status non-zero <==> an error diagnostic is emitted; the data-structure invariant level==Error <=> kind is Error is established by Diagnostic::new and is why the guard (kinds) and the status (level counts) agree (lemma). compile_from_options: compile_files only without file errors.",
        design_ref="DESIGN.md section 7, C07", technique="Verus contracts + permission preconditions on anchored-region stubs (R12) + ghost flags + counting lemma",
        note="A genuine defect (--dry-run ignored by main) was found by the permission precondition and repaired (fix: commit). Assumed: has_errors, into_updated frame, apply/apply_unsafe, clap, all process I/O."),
    "C20": dict(
        level="Proof (Verus, unbounded): the twelve visit_with functions of visitor.rs - the repository's text - are verified, for an arbitrary Visitor whose visit_x methods each record one event, to produce exactly old trace ++ tr_<kind>(element), where tr_* is the traversal order written from the property (containers before contents, source order, type right after owner, nested types to any depth, unpatched references not descended). Exactly-once / nothing-skipped / nothing-foreign is the definition of tr_* over the ownership fields.",
        design_ref="DESIGN.md section 7, C20", technique="Verus contracts with a ghost trace on the Visitor trait; loop invariants over prefixes; recursion by an assumed finite type-nesting measure",
        note="Trusted: WeakPtr::borrow / concrete_type accessors (raw-pointer AST), finite type nesting, parser-built ownership lists. Element internals opaque."),
    "C06": dict(
        level="Proof (Verus, unbounded): Term/Expression/Conditional::evaluate and process_nodes - the repository's text, extracted on every run - are verified against a semantics written from the property (expr_val / select / run_nodes): first true branch wins and later #elif conditions are not consulted; #define/#undef act only when reached, left to right. Claim is the EVALUATION semantics; which lines are directives (lexer state machine, LALRPOP tables) and location bookkeeping are trusted.",
        design_ref="DESIGN.md section 7, C06", technique="Verus contracts on extracted real functions vs. spec functions; loop invariants; assumed finite-nesting measure",
        note="Assumed: String/str Borrow+Hash+Eq agreement (2 axioms), finite nesting height of the preprocessor AST (2 axioms), vstd HashSet/Vec specs. Trusted: preprocessor lexer, generated parser, Slice lexer cursor restart."),
    "C10": dict(
        level="Proof (Verus, unbounded in value/length/nesting + Kani complete proofs of bit-level leaves): every EncodeInto/DecodeFrom impl for bool, fixed-width numbers, floats, var-ints, sizes, strings, sequences (and dictionary DECODING) is under contract against specs/wire.rs; varint encode/decode bodies are discharged by loop-free Kani harnesses over the full i64/u64/usize domain and every byte string of length 0..=9; the Kani reference is proved equal to the Verus spec. Dictionary ENCODING is only a labelled bounded Kani stand-in.",
        design_ref="DESIGN.md section 7, C10", technique="Verus function contracts + trait-level contracts; Kani harness-level contracts (full domain)",
        note="Assumed std contracts: to_le_bytes/from_le_bytes layout (cross-checked by Kani on every value), integer widening/narrowing, Vec/String/HashMap allocation API, vstd utf8/map specs. Spec-level round-trip lemma for var-ints is Kani's (real code, full domain), not yet a Verus lemma."),
    "C11": dict(
        level="Proof (Verus, all byte strings): every decode function carries only the source's representation invariant as precondition; proved: data unchanged, cursor monotone and inside the buffer (every index/copy obligation = the safety condition of the unsafe call), no reachable panic/overflow, strict bool/UTF-8/range/duplicate-key rejection, termination of skip_tagged_fields, String allocation bounded by remaining input, all Display impls panic-free. Vec/HashMap announced-size reservation = 2 known findings (listed, concrete inputs).",
        design_ref="DESIGN.md section 7, C11 and section 8", technique="Verus contracts with no input precondition; ghost resource assertions; Kani complete harnesses on symbolic buffers; replay binary on the real crate",
        note="Three genuine defects were repaired by fix: commits (duplicate-key todo!, Display todo!, String allocation); two recorded in known_findings.txt. Trusted: allocator behaviour, std collection internals, process-I/O caller of the decoders."),
    "C12": dict(
        level="Proof (Verus, unbounded capacity and operand length): all functions of buffer/slice.rs against an append-only-log view with whole-buffer frames: success <=> fits; success appends / claims exactly the next N bytes; failure changes neither contents nor cursor; reservation writes fill front to back and touch nothing outside; reads return data[pos..pos+n], peeks do not consume. VecOutputTarget (unsafe over MaybeUninit) is a labelled bounded Kani stand-in (thorough tier) and not counted as proved.",
        design_ref="DESIGN.md section 7, C12", technique="Verus data-structure contracts (view + wf + whole-view postconditions) on extracted real code; R5/R6 checked-twin rewrites",
        note="Assumed: shim_copy_nonoverlapping / shim_as_array (precondition = safety condition), Range::clone, slice length fits usize. Per-operation contracts are inductive over histories; the explicit history lemma is not written."),
}
