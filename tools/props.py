"""Per-property configuration: which Verus units and Kani harnesses carry its obligations."""

KANI_BOUNDS = {
    "kb_vec_target_ops": "vector length <= 3, spare capacity <= 4, operand <= 3, one operation (plus follow-up writes into the reservation)",
    "kb_decode_string_any_bytes": "every byte string of length <= 5",
    "kb_decode_vec_u8_any_bytes": "every byte string of length <= 5",
    "kb_skip_tagged_any_bytes": "every byte string of length <= 6",
    "kb_vec_u16_roundtrip": "sequences of <= 2 u16 elements",
    "kb_dict_roundtrip": "BTreeMap<u8,u8> with <= 2 entries; 5-byte duplicate-key payload",
    "kb_slice_target_ops": "capacity <= 6, operand length <= 4, one operation from an arbitrary reachable state",
    "kb_slice_source_ops": "buffer length <= 6, request <= 4, one operation from an arbitrary reachable state",
}

K_VARINT = ["k_encode_varuint_contract", "k_encode_size_contract", "k_encode_varint_contract",
            "k_decode_varuint_u32_any_bytes", "k_decode_varuint_u64_any_bytes", "k_decode_varuint_usize_any_bytes", "k_decode_varuint_i32_any_bytes",
            "k_decode_varint_i32_any_bytes", "k_decode_varint_i64_any_bytes",
            "k_varint_roundtrip", "k_varuint_roundtrip"]
K_FIXED = ["k_fixed_u8", "k_fixed_i8", "k_fixed_u16", "k_fixed_i16", "k_fixed_u32", "k_fixed_i32", "k_fixed_u64",
           "k_fixed_i64", "k_fixed_f32", "k_fixed_f64", "k_bool_contract"]

CODEC_TRUSTED = [
    "R5 shim_as_array / R6 shim_copy_nonoverlapping: precondition = safety condition of the unsafe call (Kani kb_slice_* run the unmodified unsafe code under pointer checks)",
    "R13 ShimLe::{shim_to_le_bytes, shim_from_le_bytes}: std to_le_bytes/from_le_bytes are the little-endian layout of the bit pattern (Kani k_fixed_* compare the real encoder/decoder with a shift/mask oracle for every value)",
    "encode_varint / encode_varuint / decode_varint / decode_varuint bodies: external_body in Verus, contract discharged by Kani k_encode_* / k_decode_*_any_bytes (full domain); wire_ref.rs == specs/wire.rs proved in Verus (unit wire_lemmas)",
    "spec_into_i64/u64, spec_try_from_int/nat axioms: std integer widening is value preserving, narrowing TryFrom is a range check",
    "Vec::try_reserve_exact (capacity exactly len+additional when it grows -- std RawVec behaviour, not promised by the docs), spare_capacity_mut/set_len shims, String::from_utf8, HashMap::try_reserve: assumed std contracts",
    "vstd's HashMap/BTreeMap/Vec/str specifications (obeys_key_model, key_obeys_cmp_spec, encode_utf8/valid_utf8)",
    "axiom: a slice's length fits in usize",
]

PROPS = {
    "C10": dict(
        units=["codec_wire", "wire_lemmas"],
        kani_quick=K_VARINT + K_FIXED,
        kani_thorough=["kb_dict_roundtrip", "kb_vec_u16_roundtrip"],
        claim="Every EncodeInto / DecodeFrom implementation of slice-codec for bool, fixed-width numbers, floats, "
              "variable-width integers, sizes, strings and sequences is under contract against the wire-format spec "
              "(specs/wire.rs, written from the property): encoders append exactly enc(value); decoders accept only "
              "is_dec(bytes, value, consumed); round trip dec(enc(x)++tail) is a lemma over the spec. Bit-level leaf "
              "functions are discharged by complete Kani harnesses over the full machine domain.",
        trusted=CODEC_TRUSTED,
        not_claimed=["dictionary ENCODING (for-loop over a map: Verus' ghost-iterator invariant fails) -- bounded Kani stand-in only, so the dictionary round trip is bounded",
                     "tokio/bytes feature code (not compiled by slicec)"],
    ),
    "C11": dict(
        units=["codec_wire", "codec_buffer", "codec_error"],
        kani_quick=["k_decode_varuint_u32_any_bytes", "k_decode_varuint_u64_any_bytes", "k_decode_varuint_usize_any_bytes",
                    "k_decode_varuint_i32_any_bytes", "k_decode_varint_i32_any_bytes", "k_decode_varint_i64_any_bytes", "k_bool_contract"],
        kani_thorough=["kb_decode_string_any_bytes", "kb_decode_vec_u8_any_bytes", "kb_skip_tagged_any_bytes", "kb_dict_roundtrip"],
        claim="Every decode function is verified with no precondition other than the source's representation invariant, "
              "so for ALL byte strings: data unchanged, cursor moves forward inside the buffer (no over-read: every "
              "indexing/copy obligation proved), no reachable panic, strict bool/UTF-8/range/duplicate-key rejection, "
              "allocation bounded by the remaining input (String; Vec/HashMap are known findings), every error renders.",
        trusted=CODEC_TRUSTED + ["global allocator behaviour on a failed reservation", "wall-clock / RSS are not contract-expressible: the resource clause bounds requested bytes and loop iterations"],
        not_claimed=["definition_types.rs DecodeFrom for GeneratedFile/Diagnostic is carried by C08's unit", "handle_generator_response (process I/O region)"],
    ),
    "C12": dict(
        units=["codec_buffer"],
        kani_quick=[],
        kani_thorough=["kb_slice_target_ops", "kb_slice_source_ops", "kb_vec_target_ops"],
        claim="Every function of slice-codec/src/buffer/slice.rs (fixed-slice output target, slice input source) is "
              "verified by Verus against an append-only-log / whole-buffer-frame contract, for unbounded capacity "
              "and operand length; the trait-level contracts of OutputTarget/InputSource are what generic callers see.",
        trusted=["R5/R6 shims: shim_as_array, shim_copy_nonoverlapping (precondition = safety condition of the unsafe call)",
                 "VecOutputTarget (buffer/vec.rs): unsafe over MaybeUninit/set_len -- bounded Kani stand-in only (thorough tier)"],
        assumptions=["machine fact axiom: a slice's length fits in usize"],
        not_claimed=["VecOutputTarget beyond the Kani bound", "allocator behaviour"],
    ),
}
