"""Per-property configuration: which Verus units and Kani harnesses carry its obligations."""

KANI_BOUNDS = {
    "kb_slice_target_ops": "capacity <= 6, operand length <= 4, one operation from an arbitrary reachable state",
    "kb_slice_source_ops": "buffer length <= 6, request <= 4, one operation from an arbitrary reachable state",
}

K_VARINT = ["k_encode_varuint_contract", "k_encode_size_contract", "k_encode_varint_contract",
            "k_decode_varuint_u32_any_bytes", "k_decode_varuint_u64_any_bytes", "k_decode_varuint_usize_any_bytes", "k_decode_varuint_i32_any_bytes",
            "k_decode_varint_i32_any_bytes", "k_decode_varint_i64_any_bytes",
            "k_varint_roundtrip", "k_varuint_roundtrip"]
K_FIXED = ["k_fixed_u8", "k_fixed_i8", "k_fixed_u16", "k_fixed_i16", "k_fixed_u32", "k_fixed_i32", "k_fixed_u64",
           "k_fixed_i64", "k_fixed_f32", "k_fixed_f64", "k_bool_contract"]

PROPS = {
    "C12": dict(
        units=["codec_buffer"],
        kani_quick=[],
        kani_thorough=["kb_slice_target_ops", "kb_slice_source_ops"],
        claim="Every function of slice-codec/src/buffer/slice.rs (fixed-slice output target, slice input source) is "
              "verified by Verus against an append-only-log / whole-buffer-frame contract, for unbounded capacity "
              "and operand length; the trait-level contracts of OutputTarget/InputSource are what generic callers see.",
        trusted=["R5/R6 shims: shim_as_array, shim_copy_nonoverlapping (precondition = safety condition of the unsafe call)",
                 "VecOutputTarget (buffer/vec.rs): unsafe over MaybeUninit/set_len -- bounded Kani stand-in only (thorough tier)"],
        assumptions=["machine fact axiom: a slice's length fits in usize"],
        not_claimed=["VecOutputTarget beyond the Kani bound", "allocator behaviour"],
    ),
}
