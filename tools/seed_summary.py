#!/usr/bin/env python3
"""Writes seeded/SUMMARY.md from the meta.json files."""
import glob
import json
import os

VERIF = os.path.dirname(os.path.dirname(os.path.abspath(__file__)))
rows = []
for m in sorted(glob.glob(os.path.join(VERIF, "seeded", "*", "meta.json"))):
    j = json.load(open(m))
    for p, c in j["checks"].items():
        how = "; ".join(l.split(" replay=")[0] if l.startswith("VIOLATION") else l[:160] for l in c["lines"] if not l.startswith("["))[:260]
        obl = ""
        for l in c["lines"]:
            if l.startswith("VIOLATION"):
                obl = os.path.basename(l.split("replay=")[1].split()[0]).replace(".json", "")[:90]
                break
        rows.append((j["id"], p, c["verdict"], obl or how, "yes" if j["confirmed_by_me"]["ok"] else "NO"))
out = ["# Seeded changes: which check says what", "",
       "Each change was written by an independent sub-agent (property text + own worktree only), compiles, passes the 512 existing tests,",
       "and has a demonstration that fails with it and passes without it - all re-confirmed by `tools/seed_verify.sh` (column *confirmed*).",
       "`DETECTED` = exit 1 with a VIOLATION line naming the obligation; `UNDECIDED` = exit 2 (not a pass, not an alarm); `MISSED` = exit 0.", "",
       "| seed | check | verdict | obligation / reason | confirmed |", "|---|---|---|---|---|"]
for r in rows:
    out.append("| " + " | ".join(str(x).replace("|", "\\|") for x in r) + " |")
det = sum(1 for r in rows if r[2].startswith("DETECTED"))
und = sum(1 for r in rows if r[2].startswith("UNDECIDED"))
mis = sum(1 for r in rows if r[2].startswith("MISSED"))
out += ["", f"Totals: {len(rows)} runs - detected {det}, undecided {und}, missed {mis}.", ""]
open(os.path.join(VERIF, "seeded", "SUMMARY.md"), "w").write("\n".join(out))
print("\n".join(out[-4:]))
