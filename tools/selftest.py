#!/usr/bin/env python3
"""selftest -- deliberate property-breaking edits (selftest/mutations.json) applied one at a time to a
scratch worktree of /repo under /var/tmp; the property's check must exit 1 and name the expected
function/clause. A mutation that survives marks the contract as too weak. The worktree is removed."""
import json
import os
import subprocess
import sys

VERIF = os.path.dirname(os.path.dirname(os.path.abspath(__file__)))
WT = os.environ.get("SELFTEST_WT", "/var/tmp/slicec_selftest")
muts = json.load(open(os.path.join(VERIF, "selftest", "mutations.json")))
only = set(sys.argv[1:])
subprocess.run(["git", "-C", "/repo", "worktree", "remove", "--force", WT], capture_output=True)
subprocess.run(["git", "-C", "/repo", "worktree", "add", "-f", WT, "HEAD", "-q"], check=True, capture_output=True)
results = []
try:
    for m in muts:
        if only and m["id"] not in only:
            continue
        path = os.path.join(WT, m["file"])
        src = open(path).read()
        if src.count(m["old"]) != 1:
            results.append((m["id"], m["property"], "STALE (anchor occurs %d times)" % src.count(m["old"]), m["what"]))
            continue
        open(path, "w").write(src.replace(m["old"], m["new"]))
        p = subprocess.run([os.path.join(VERIF, "check"), m["property"]], cwd=VERIF, capture_output=True, text=True,
                           env=dict(os.environ, VERIF_REPO=WT))
        out = p.stdout
        hit = p.returncode == 1 and m["expect"] in out
        verdict = "KILLED" if hit else ("exit %d" % p.returncode + (" (violation, but `%s` not named)" % m["expect"] if p.returncode == 1 else ""))
        results.append((m["id"], m["property"], verdict, m["what"]))
        print(m["id"], m["property"], verdict, flush=True)
        subprocess.run(["git", "-C", WT, "checkout", "-q", "--", "."])
finally:
    subprocess.run(["git", "-C", "/repo", "worktree", "remove", "--force", WT], capture_output=True)
    import hashlib, shutil, glob
    tag = hashlib.sha1(WT.encode()).hexdigest()[:8]
    for d in glob.glob(os.path.join(VERIF, "build", f"*_{tag}")):
        shutil.rmtree(d, ignore_errors=True)
killed = sum(1 for r in results if r[2] == "KILLED")
lines = ["# Mutation self-test (tools/selftest.py)", "", "| id | property | result | mutation |", "|---|---|---|---|"] + \
    [f"| {a} | {b} | {c} | {d} |" for (a, b, c, d) in results] + ["", f"{killed} of {len(results)} killed."]
if not only:
    open(os.path.join(VERIF, "selftest", "RESULTS.md"), "w").write("\n".join(lines) + "\n")
print(f"{killed} of {len(results)} killed")
sys.exit(0 if killed == len(results) else 1)
