#!/bin/bash
# try_seed.sh <seed id, e.g. C09-a> [property (default: the seed's)] [tier]
# Applies seeded/<id>/patch.diff to a throw-away worktree of /repo under /var/tmp, runs the
# property's check against it (VERIF_REPO) and removes the worktree and per-tree build output.
set -u
VERIF=$(cd "$(dirname "$0")/.." && pwd)
ID=$1; PROP=${2:-${ID%%-*}}; TIER=${3:-quick}
WT=/var/tmp/try_$ID.$$
git -C /repo worktree add -f $WT HEAD -q || exit 3
git -C $WT apply $VERIF/seeded/$ID/patch.diff || { echo "PATCH DOES NOT APPLY"; git -C /repo worktree remove --force $WT; exit 3; }
(cd $VERIF && VERIF_REPO=$WT ./check $PROP --tier $TIER 2>&1 | grep -E "^VIOLATION|^UNDECIDED|^KNOWN|^\[" | cut -c1-500)
git -C /repo worktree remove --force $WT
tag=$(python3 -c "import hashlib,sys;print(hashlib.sha1(sys.argv[1].encode()).hexdigest()[:8])" $WT)
rm -rf $VERIF/build/*_$tag
