#!/usr/bin/env python3
"""kani_run -- instantiate the harness crate against a repository path, run selected harnesses
with `cargo kani`, parse per-harness results, obtain and replay counterexamples.

A harness named `k_*` is a complete proof (loop-free code under verification over the full
domain); `kb_*` is a bounded stand-in whose bound is recorded in props.KANI_BOUNDS.
"""
import hashlib
import os
import re
import shutil
import subprocess
import sys
import time

VERIF = os.path.dirname(os.path.dirname(os.path.abspath(__file__)))
KANI_TIMEOUT = int(os.environ.get("VERIF_KANI_TIMEOUT", "1500"))
JOBS = int(os.environ.get("VERIF_KANI_JOBS", "10"))
MEM_KB = int(os.environ.get("VERIF_KANI_MEM_KB", str(10 * 1024 * 1024)))


def strip_verus_contracts(src):
    # remove `proof { ... }` blocks (balanced), then requires/ensures lines and named returns
    while True:
        m = re.search(r"\bproof\s*\{", src)
        if not m:
            break
        d, j = 0, m.end() - 1
        while j < len(src):
            if src[j] == "{":
                d += 1
            elif src[j] == "}":
                d -= 1
                if d == 0:
                    break
            j += 1
        src = src[:m.start()] + src[j + 1:]
    out = []
    for ln in src.split("\n"):
        st = ln.strip()
        if st.startswith("requires ") or st.startswith("ensures ") or st.startswith("decreases "):
            continue
        ln = re.sub(r"-> \((\w+): ([^)]+)\)", r"-> \2", ln)
        out.append(ln)
    return "\n".join(out)


def crate_dir(repo):
    tag = "" if repo == "/repo" else "_" + hashlib.sha1(repo.encode()).hexdigest()[:8]
    return os.path.join(VERIF, "build", "kani_crate" + tag)


def prepare(repo):
    d = crate_dir(repo)
    os.makedirs(os.path.join(d, "src"), exist_ok=True)
    tmpl = open(os.path.join(VERIF, "kani", "Cargo.toml.in")).read().replace("@REPO@", repo)
    _write_if_changed(os.path.join(d, "Cargo.toml"), tmpl)
    lock = os.path.join(repo, "Cargo.lock")
    if os.path.exists(lock) and not os.path.exists(os.path.join(d, "Cargo.lock")):
        shutil.copy(lock, os.path.join(d, "Cargo.lock"))
    _write_if_changed(os.path.join(d, "src", "lib.rs"), open(os.path.join(VERIF, "kani", "src", "lib.rs")).read())
    _write_if_changed(os.path.join(d, "src", "wire_ref.rs"),
                      strip_verus_contracts(open(os.path.join(VERIF, "specs", "wire_ref.rs")).read()))
    os.makedirs(os.path.join(d, ".cargo"), exist_ok=True)
    _write_if_changed(os.path.join(d, ".cargo", "config.toml"), "[net]\noffline = true\n")
    return d


def _write_if_changed(path, text):
    if os.path.exists(path) and open(path).read() == text:
        return
    open(path, "w").write(text)


def parse_output(out, harnesses):
    """terse multi-thread output -> {harness: dict}."""
    res = {}
    cur_by_thread = {}
    cur = None
    single = None
    for ln in out.split("\n"):
        m = re.match(r"(?:Thread (\d+): )?Checking harness (\S+?)\.\.\.", ln)
        if m:
            name = m.group(2).split("::")[-1]
            if m.group(1) is not None:
                cur_by_thread[m.group(1)] = name
            else:
                single = name
            res.setdefault(name, {"lines": []})
            cur = name if m.group(1) is None else None
            continue
        m = re.match(r"Thread (\d+):\s*$", ln)
        if m:
            cur = cur_by_thread.get(m.group(1))
            continue
        if ln.startswith("Manual Harness Summary") or ln.startswith("Complete - ") or ln.startswith("Verification failed for"):
            cur = None
            continue
        if cur:
            res[cur]["lines"].append(ln)
    out_res = {}
    for h, r in res.items():
        txt = "\n".join(r["lines"])
        d = {"harness": h, "raw": txt[-6000:]}
        m = re.search(r"\*\* (\d+) of (\d+) failed", txt)
        if m:
            d["failed"], d["checks"] = int(m.group(1)), int(m.group(2))
        m = re.search(r"\*\* (\d+) of (\d+) cover properties satisfied", txt)
        if m:
            d["cover_sat"], d["cover_total"] = int(m.group(1)), int(m.group(2))
        m = re.search(r"Verification Time: ([\d.]+)s", txt)
        if m:
            d["verif_s"] = float(m.group(1))
        if "VERIFICATION:- SUCCESSFUL" in txt:
            d["status"] = "pass"
        elif "VERIFICATION:- FAILED" in txt:
            d["status"] = "violation"
            fcs = []
            for fm in re.finditer(r"Failed Checks: (.*)\n(?:\s*File: \"([^\"]*)\", line (\d+), in (\S+))?", txt):
                fcs.append(dict(desc=fm.group(1).strip(), file=fm.group(2), line=fm.group(3), fn=fm.group(4),
                                check=re.sub(r"\W+", "-", fm.group(1).strip())[:60] + (f"@{fm.group(4)}" if fm.group(4) else ""),
                                raw=fm.group(0)))
            d["failed_checks"] = fcs
            # failures that are only unwinding assertions / unsupported constructs are not verdicts
            if fcs and all(re.search(r"unwinding assertion|not currently supported|unsupported", f["desc"]) for f in fcs):
                d["status"] = "undecided"
                d["why"] = "only unwinding-assertion / unsupported-construct failures: " + fcs[0]["desc"]
            if not fcs:
                d["status"] = "undecided"
                d["why"] = "FAILED without a failed check line"
        else:
            d["status"] = "undecided"
            d["why"] = "no verification result (timeout / out of memory / compile error)"
        out_res[h] = d
    return out_res


def run_harnesses(harnesses, repo="/repo", jobs=None):
    from props import KANI_BOUNDS
    if not harnesses:
        return []
    d = prepare(repo)
    inner = ["cargo", "kani", "--output-format=terse", "-j", str(jobs or JOBS)]
    for h in harnesses:
        inner += ["--harness", h]
    # every process of the run (cbmc in particular) is capped in virtual memory: a harness that
    # would need more is reported undecided (bounded stand-in unavailable), never an alarm, and can
    # never starve the machine (one uncapped SAT instance reached 41 GB in this sandbox)
    cmd = ["timeout", str(KANI_TIMEOUT), "bash", "-c", f"ulimit -v {MEM_KB}; exec " + " ".join(inner)]
    env = dict(os.environ, CARGO_NET_OFFLINE="true", CARGO_TARGET_DIR=os.path.join(VERIF, "build", "kani_target"))
    t0 = time.time()
    p = subprocess.run(cmd, cwd=d, capture_output=True, text=True, env=env)
    wall = time.time() - t0
    parsed = parse_output(p.stdout + "\n" + p.stderr, harnesses)
    results = []
    for h in harnesses:
        r = parsed.get(h) or {"harness": h, "status": "undecided",
                              "why": ("cargo kani timed out" if p.returncode == 124 else
                                      "harness not run: " + (p.stderr[-800:] or p.stdout[-800:]))}
        r["cmd"] = f"(cd {d} && CARGO_NET_OFFLINE=true cargo kani --output-format=terse --harness {h})"
        r["wall_s"] = round(wall, 1)
        r["kind"] = "bounded" if h.startswith("kb_") else "complete"
        r["bound"] = KANI_BOUNDS.get(h)
        r.setdefault("failed_checks", [])
        if r.get("cover_total") and r.get("cover_sat", 0) < r["cover_total"]:
            r["cover_unsat"] = True
        if r["status"] == "violation":
            r["concrete"], r["concrete_confirmed"] = concrete_playback(h, d, env)
        results.append(r)
    return results


def concrete_playback(h, d, env):
    """Ask Kani for a concrete counterexample, write it in place as a unit test in the crate copy
    and execute it natively against the real crate (cargo kani playback). Returns
    (description, confirmed)."""
    try:
        src_path = os.path.join(d, "src", "lib.rs")
        before = open(src_path).read()
        cmd = ["timeout", "900", "cargo", "kani", "-Z", "concrete-playback", "--concrete-playback=inplace",
               "--output-format=terse", "--harness", h]
        subprocess.run(cmd, cwd=d, capture_output=True, text=True, env=env)
        after = open(src_path).read()
        m = re.search(r"fn (kani_concrete_playback_" + re.escape(h) + r"_\w+)\(\)\s*\{(.*?)\n\s*\}\n", after, re.S)
        if not m:
            open(src_path, "w").write(before)
            return None, False
        test_name, body = m.group(1), m.group(2)
        vals = re.findall(r"//\s*(.+)\n\s*vec!\[([^\]]*)\]", body)
        desc = dict(test=test_name, values=[dict(value=v.strip(), bytes=b.strip()) for v, b in vals][:64])
        p = subprocess.run(["timeout", "900", "cargo", "kani", "playback", "-Z", "concrete-playback", "--", test_name],
                           cwd=d, capture_output=True, text=True, env=env)
        out = p.stdout + p.stderr
        confirmed = bool(re.search(r"test result: FAILED|panicked at", out))
        desc["native_run"] = out[-1500:]
        open(src_path, "w").write(before)
        return desc, confirmed
    except Exception as ex:  # replay is best effort; the verdict does not depend on it
        return dict(error=str(ex)), False


def replay_concrete(body, repo):
    print("concrete counterexample (from Kani, executed natively against the real crate):")
    print(body.get("concrete_input"))
    return 1 if body.get("concrete_confirmed") else 0


if __name__ == "__main__":
    sys.path.insert(0, os.path.dirname(os.path.abspath(__file__)))
    rs = run_harnesses(sys.argv[1:], os.environ.get("VERIF_REPO", "/repo"))
    for r in rs:
        print(r["harness"], r["status"], r.get("checks"), r.get("failed"), r.get("verif_s"), r.get("why", ""))
