//! C19 bounded stand-in: every generator specification over the alphabet {a, b, ' ', ',', '=', '\'}
//! of length <= 6, parsed by the REAL `--generator` value parser (through clap) and by this oracle,
//! which is the executable twin of specs/plugin_sem.rs (written from the property statement).
use crate::Report;
use clap::Parser;
use slicec::slice_options::SliceOptions;

#[derive(Clone, Copy, PartialEq)]
enum Mode { Path, Key, Value }

/// None = rejected
pub fn oracle(s: &str) -> Option<(String, Vec<(String, String)>)> {
    let cs: Vec<char> = s.chars().collect();
    let (mut path, mut args, mut mode) = (String::new(), Vec::<(String, String)>::new(), Mode::Path);
    let mut i = 0;
    let push = |path: &mut String, args: &mut Vec<(String, String)>, mode: Mode, c: char| match mode {
        Mode::Path => path.push(c),
        Mode::Key => args.last_mut().unwrap().0.push(c),
        Mode::Value => args.last_mut().unwrap().1.push(c),
    };
    while i < cs.len() {
        let c = cs[i];
        if c == '\\' && i + 1 < cs.len() && (cs[i + 1] == ',' || cs[i + 1] == '=') {
            push(&mut path, &mut args, mode, cs[i + 1]); // `\,` and `\=` are the literal character
            i += 2;
            continue;
        }
        if c == ',' {
            if i + 1 < cs.len() { args.push((String::new(), String::new())); mode = Mode::Key; } // one trailing comma is ignored
        } else if c == '=' {
            match mode {
                Mode::Path => path.push('='),       // '=' is literal in the path
                Mode::Key => mode = Mode::Value,
                Mode::Value => return None,         // a second unescaped '='
            }
        } else {
            push(&mut path, &mut args, mode, c);
        }
        i += 1;
    }
    let path = path.trim().to_owned();
    let args: Vec<_> = args.into_iter().map(|(k, v)| (k.trim().to_owned(), v.trim().to_owned())).collect();
    if path.is_empty() || args.iter().any(|(k, _)| k.is_empty()) { return None; }
    Some((path, args))
}

fn real(s: &str) -> Result<Option<(String, Vec<(String, String)>)>, ()> {
    let r = std::panic::catch_unwind(|| SliceOptions::try_parse_from(["slicec", "-G", s, "x.slice"]));
    match r {
        Err(_) => Err(()),
        Ok(Err(_)) => Ok(None),
        Ok(Ok(o)) => Ok(o.generators.first().map(|p| (p.path.clone(), p.args.clone()))),
    }
}

pub fn run() -> i32 {
    let mut rep = Report::new("plugin", "all strings of length <= 6 over {a,b,' ',',','=','\\\\'} (55987 strings)");
    let alpha = ['a', 'b', ' ', ',', '=', '\\'];
    let mut cur: Vec<String> = vec![String::new()];
    for _len in 0..=6 {
        for s in &cur {
            let want = oracle(s);
            rep.case(s.contains(',') || s.contains('\\'), || s.clone());
            match real(s) {
                Err(()) => rep.counterexample(s, &format!("{want:?}"), "PANIC"),
                Ok(got) => if got != want { rep.counterexample(s, &format!("{want:?}"), &format!("{got:?}")); },
            }
        }
        if _len == 6 { break; }
        let mut next = Vec::with_capacity(cur.len() * alpha.len());
        for s in &cur { for a in alpha { let mut t = s.clone(); t.push(a); next.push(t); } }
        cur = next;
    }
    rep.finish()
}
