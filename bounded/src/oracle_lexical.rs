//! C01 (bounded stand-in): no input text makes the compiler panic -- small-scope lexical sweep.
//!
//! Every string of length <= 2 over an alphabet of 44 "interesting" characters (all Unicode White_Space
//! code points + VT/FF/NEL, line-structure characters, every punctuation character the three lexers
//! branch on, a letter, a digit, 2-/3-/4-byte UTF-8 letters) is placed into each of 9 contexts
//! (preprocessor directive positions, plain source, attribute arguments, string literals, doc comment
//! overview / tags / inline links, block comments), and the REAL compiler is run on it.
//! Only a panic counts; diagnostics are expected. Each case also renders every diagnostic's snippet
//! (human format) so that the span -> snippet path is exercised on the same inputs.
use crate::Report;
use slicec::slice_options::SliceOptions;

const ALPHA: &[char] = &[
    ' ', '\t', '\n', '\r', '\u{b}', '\u{c}', '\u{85}', '\u{a0}', '\u{1680}', '\u{2000}', '\u{2003}', '\u{200a}', '\u{2028}',
    '\u{2029}', '\u{202f}', '\u{205f}', '\u{3000}', '\u{feff}', '#', '/', '*', '\\', '"', '\'', '(', ')', '[', ']', '{', '}', '<', '>',
    ':', ',', '=', '&', '|', '!', '@', '-', 'a', '0', '_', 'é', '日', '𝒳',
];

const CONTEXTS: &[(&str, &str, &str)] = &[
    ("directive-after-keyword", "#define", "FOO\nmodule M\n"),
    ("directive-condition", "#if FOO", "\nstruct A {}\n#endif\nmodule M\n"),
    ("directive-start", "", "define X\nmodule M\n"),
    ("source", "module M\nstruct S {", "}\n"),
    ("attribute-argument", "module M\n[foo::bar(", ")]\nstruct S {}\n"),
    ("string-literal", "module M\n[deprecated(\"x", "y\")]\nstruct S {}\n"),
    ("doc-overview", "module M\n/// text ", " more\nstruct S {}\n"),
    ("doc-tag", "module M\ninterface I {\n/// @param ", "x: y\nop(x: bool)\n}\n"),
    ("doc-link", "module M\n/// {@link ", "S}\nstruct S {}\n"),
    ("block-comment", "module M\n/* a ", " b */ struct S {}\n"),
    ("doc-second-line", "module M\n/// a\n///", "b\nstruct S {}\n"),
    ("doc-tag-continuation", "module M\ninterface I {\n/// @param x: a\n///", "b\nop(x: bool)\n}\n"),
];

/// token soup: every sequence of <= 3 tokens of this alphabet after `module M`, and inside a struct / an
/// interface body
const TOKENS: &[&str] = &[
    "module", "struct", "exception", "class", "interface", "enum", "custom", "typealias", "compact", "unchecked", "idempotent", "stream",
    "tag", "throws", "Sequence", "Dictionary", "Result", "bool", "int32", "varuint62", "string", "AnyClass", "A", "B", "M::A", "::A", "1", "-1",
    "0x7fffffff", "\"s\"", "{", "}", "(", ")", "[", "]", "[[", "]]", "<", ">", ":", "::", ",", "=", "?", "->", "-", "/// d\n", "#if A\n", "#endif\n",
];
const SOUP_CONTEXTS: &[(&str, &str, &str)] = &[
    ("soup-top", "module M\nstruct A {}\n", "\n"),
    ("soup-after-colon", "module M\nstruct A {}\ninterface B {}\ninterface I : ", " {}\n"),
    ("soup-enum-underlying", "module M\nstruct A {}\nenum E : ", " { X }\n"),
    ("soup-field-type", "module M\nstruct A {}\nstruct S { f: ", " }\n"),
    ("soup-alias", "module M\nstruct A {}\ntypealias T = ", "\n"),
    ("soup-operation", "module M\nstruct A {}\ninterface I { op(", ") }\n"),
];

/// Programs whose failure mode is a stack overflow (which aborts the process and cannot be caught):
/// each is compiled in a CHILD process (`slicec-bounded one <text>`). Containment, alias and
/// inheritance cycles over <= 3 definitions through every wrapper form, plus acyclic controls.
const ISOLATED: &[(&str, &str)] = &[
    ("alias-self", "module M\ntypealias A = A\n"),
    ("alias-2-cycle", "module M\ntypealias A = B\ntypealias B = A\n"),
    ("alias-self-optional", "module M\ntypealias A = A?\n"),
    ("alias-self-through-sequence", "module M\ntypealias A = Sequence<A>\n"),
    ("alias-self-through-dictionary-value", "module M\ntypealias A = Dictionary<int32, A>\n"),
    ("alias-self-through-result", "module M\ntypealias A = Result<A, int32>\n"),
    ("alias-2-cycle-through-sequences", "module M\ntypealias A = Sequence<B>\ntypealias B = Sequence<A>\n"),
    ("alias-chain-into-2-cycle-used", "module M\ntypealias A = B\ntypealias B = C\ntypealias C = B\nstruct S { a: A }\n"),
    ("alias-chain-into-self-cycle-used", "module M\ntypealias A = B\ntypealias B = B\ninterface I { op(a: A) }\n"),
    ("alias-cycle-used-by-struct", "module M\ntypealias A = Sequence<A>\nstruct S { a: A }\n"),
    ("struct-self", "module M\nstruct S { s: S }\n"),
    ("struct-self-through-sequence", "module M\nstruct S { s: Sequence<S> }\n"),
    ("struct-self-through-optional", "module M\nstruct S { s: S? }\n"),
    ("struct-2-cycle-through-dictionary", "module M\nstruct S { t: Dictionary<int32, T> }\nstruct T { s: S }\n"),
    ("enum-self-through-enumerator-field", "module M\nenum E { X(e: E) }\n"),
    ("struct-enum-cycle-through-result", "module M\nstruct S { e: Result<E, bool> }\nenum E { X(s: S) }\n"),
    ("interface-self", "module M\ninterface I : I {}\n"),
    ("interface-2-cycle", "module M\ninterface I : J {}\ninterface J : I {}\n"),
    ("interface-3-cycle", "module M\ninterface I : J {}\ninterface J : K {}\ninterface K : I {}\n"),
    ("interface-cycle-with-operation", "module M\ninterface I : I { op() }\n"),
    ("interface-diamond", "module M\ninterface A {}\ninterface B : A {}\ninterface C : A {}\ninterface D : B, C {}\n"),
    ("interface-deep-chain", "module M\ninterface A {}\ninterface B : A {}\ninterface C : B {}\ninterface D : C {}\ninterface E : D {}\n"),
];

/// child-process entry: compile one text (all phases) and render its diagnostics
pub fn one(text: &str) -> i32 {
    let mut options = SliceOptions::default();
    options.disable_color = true;
    let state = slicec::compile_from_strings(&[text], Some(&options));
    let slicec::compilation_state::CompilationState { ast, diagnostics, files } = state;
    let diags = diagnostics.into_updated(&ast, &files, &options);
    let mut sink: Vec<u8> = vec![];
    let mut emitter = slicec::diagnostic_emitter::DiagnosticEmitter::new(&mut sink, &options, &files);
    let _ = emitter.emit_diagnostics(diags);
    0
}

pub fn run() -> i32 {
    let deep = std::env::var("VERIF_BOUNDED_DEEP").is_ok();
    let mut rep = Report::new(
        "lexical",
        if deep {
            "DEEP: every string of length <= 2 over 46 characters + length 3 over 16 of them, in 12 contexts (compile + render); token soup of <= 3 tokens over 50 tokens in 6 contexts; 22 cycle programs and 12 layered-diamond programs (12 and 30 layers, bottom-up and top-down: exponentially many paths) in child processes with a 3 s limit; only a panic/abort/hang counts"
        } else {
            "every string of length <= 2 over 46 characters (all Unicode white space, the lexers' punctuation, multi-byte letters) in 12 contexts (compile + render); token soup of <= 2 tokens over 50 tokens in 6 contexts; 22 cycle programs and 12 layered-diamond programs (12 and 30 layers, bottom-up and top-down: exponentially many paths) in child processes with a 3 s limit; only a panic/abort/hang counts"
        },
    );
    let mut fillers: Vec<String> = vec![String::new()];
    for a in ALPHA {
        fillers.push(a.to_string());
    }
    for a in ALPHA {
        for b in ALPHA {
            fillers.push(format!("{a}{b}"));
        }
    }
    if deep {
        const SMALL: &[char] = &[' ', '\t', '\n', '\u{a0}', '\u{3000}', '#', '/', '*', '\\', '"', '{', '}', '@', ':', 'a', 'é'];
        for a in SMALL { for b in SMALL { for c in SMALL { fillers.push(format!("{a}{b}{c}")); } } }
    }
    for (name, pre, post) in CONTEXTS {
        for f in &fillers {
            let text = format!("{pre}{f}{post}");
            let label = format!("{name}: {:?}", text);
            rep.case(!f.is_empty(), || label.clone());
            let t2 = text.clone();
            let r = std::panic::catch_unwind(move || {
                let mut options = SliceOptions::default();
                options.disable_color = true;
                let state = slicec::compile_from_strings(&[&t2], Some(&options));
                let slicec::compilation_state::CompilationState { ast, diagnostics, files } = state;
                let diags = diagnostics.into_updated(&ast, &files, &options);
                let mut sink: Vec<u8> = vec![];
                let mut emitter = slicec::diagnostic_emitter::DiagnosticEmitter::new(&mut sink, &options, &files);
                let _ = emitter.emit_diagnostics(diags);
                sink.len()
            });
            if r.is_err() {
                rep.counterexample(&label, "diagnostics and a verdict", "PANIC");
            }
        }
    }
    let exe = std::env::current_exe().unwrap();
    // "within a time bound that grows gently with input size": inheritance / containment / alias structures that are small as TEXT
    // but have exponentially many PATHS (layered diamonds: every definition of a layer refers to both definitions of the layer below)
    let mut scaling: Vec<(String, String)> = vec![];
    for layers in [12usize, 30] {
        let mut i = String::from("module M\n");
        let mut st = String::from("module M\n");
        let mut al = String::from("module M\nstruct Leaf {}\n");
        for k in 0..layers {
            for j in ["a", "b"] {
                let below = if k == 0 { String::new() } else { format!(" : L{}a, L{}b", k - 1, k - 1) };
                i.push_str(&format!("interface L{k}{j}{below} {{ op{k}{j}() }}\n"));
                let fields = if k == 0 { "x: bool".to_owned() } else { format!("x: L{}a, y: Sequence<L{}b>", k - 1, k - 1) };
                st.push_str(&format!("struct L{k}{j} {{ {fields} }}\n"));
                let under = if k == 0 { "Leaf".to_owned() } else { format!("Dictionary<L{}a, L{}b>", k - 1, k - 1) };
                al.push_str(&format!("typealias L{k}{j} = {under}\n"));
            }
        }
        al.push_str(&format!("struct User {{ u: L{}a }}\n", layers - 1));
        // the same definitions written TOP LAYER FIRST (a memo that is only filled for the definition a search starts from helps
        // bottom-up files and not these)
        let reversed = |t: &str| -> String { let mut ls: Vec<&str> = t.lines().collect(); let head = ls.remove(0); ls.reverse(); format!("{head}\n{}\n", ls.join("\n")) };
        scaling.push((format!("interface-layered-diamonds-{layers}-top-down"), reversed(&i)));
        scaling.push((format!("struct-layered-diamonds-{layers}-top-down"), reversed(&st)));
        scaling.push((format!("alias-layered-diamonds-{layers}-top-down"), reversed(&al)));
        scaling.push((format!("interface-layered-diamonds-{layers}"), i));
        scaling.push((format!("struct-layered-diamonds-{layers}"), st));
        scaling.push((format!("alias-layered-diamonds-{layers}"), al));
    }
    let isolated: Vec<(String, String)> = ISOLATED.iter().map(|(n, t)| (n.to_string(), t.to_string())).chain(scaling).collect();
    for (name, text) in &isolated {
        let label = format!("isolated {name}: {:?}", text);
        rep.case(true, || label.clone());
        let out = std::process::Command::new("timeout").arg("3").arg(&exe).arg("one").arg(text).output();
        match out {
            Ok(o) if o.status.success() => {}
            Ok(o) => {
                let err = String::from_utf8_lossy(&o.stderr);
                let why = if err.contains("overflowed its stack") { "stack overflow".to_owned() }
                    else if o.status.code() == Some(124) { "no verdict within 3 s".to_owned() }
                    else if o.status.code() == Some(101) { "panic".to_owned() }
                    else { format!("{:?}", o.status) };
                crate::LAST_PANIC.with(|l| *l.borrow_mut() = format!("child process ({why}) [{name}]"));
                rep.counterexample(&label, "diagnostics and a verdict", "PANIC/ABORT");
            }
            Err(e) => { crate::LAST_PANIC.with(|l| *l.borrow_mut() = format!("cannot run child: {e}")); rep.counterexample(&label, "a child process", "PANIC/ABORT"); }
        }
    }
    let mut soups: Vec<String> = vec![];
    for a in TOKENS {
        soups.push(a.to_string());
        for b in TOKENS {
            soups.push(format!("{a} {b}"));
        }
    }
    if deep {
        for a in TOKENS { for b in TOKENS { for c in TOKENS { soups.push(format!("{a} {b} {c}")); } } }
    }
    for (name, pre, post) in SOUP_CONTEXTS {
        for f in &soups {
            let text = format!("{pre}{f}{post}");
            let label = format!("{name}: {:?}", text);
            rep.case(true, || label.clone());
            let t2 = text.clone();
            let r = std::panic::catch_unwind(move || {
                let options = SliceOptions::default();
                let state = slicec::compile_from_strings(&[&t2], Some(&options));
                state.diagnostics.is_empty()
            });
            if r.is_err() {
                rep.counterexample(&label, "diagnostics and a verdict", "PANIC");
            }
        }
    }
    rep.finish()
}
