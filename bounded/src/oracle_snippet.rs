//! C09 (bounded stand-in): the human-readable snippet shows the right lines and underlines exactly
//! the spanned columns -- also with tabs, CRLF and non-ASCII text.
//!
//! Every text of <= 2 lines, each line of length <= 4 over the alphabet {a, TAB, é, 日} (with LF or
//! CRLF line ends), x every span (start <= end, on character boundaries inside the text) is rendered
//! by the REAL DiagnosticEmitter (human format, colours off) and compared with an oracle written
//! from the property: one displayed line per spanned row, numbered with its row, tabs shown as
//! EXPANDED columns; under it, the underline starts under the first spanned character and is as
//! wide as the displayed spanned characters; an empty span is shown as `/\` straddling the point.
use crate::Report;
use slicec::diagnostics::{Diagnostic, Error};
use slicec::slice_file::{Location, SliceFile, Span};
use slicec::slice_options::SliceOptions;

const TAB_COLUMNS: usize = 4; // the property: the snippet shows tabs as 4 columns ("EXPANDED_TAB")

fn disp(s: &[char]) -> usize { s.iter().map(|c| if *c == '\t' { TAB_COLUMNS } else { 1 }).sum() }

fn expected(lines: &[Vec<char>], start: (usize, usize), end: (usize, usize)) -> Vec<String> {
    // rows and columns are 1-based; a column is a character index + 1
    let digits = end.0.to_string().len() + 1;
    let blank = format!("{:<digits$}|", "");
    let mut out = vec![blank.clone()];
    for row in start.0..=end.0 {
        let line = &lines[row - 1];
        let shown: String = line.iter().map(|c| if *c == '\t' { " ".repeat(TAB_COLUMNS) } else { c.to_string() }).collect();
        out.push(format!("{:<digits$}| {}", row, shown));
        let hs = if row == start.0 { start.1 - 1 } else { 0 };
        let he = if row == end.0 { end.1 - 1 } else { line.len() };
        let under = if hs == he {
            format!("{}{}", " ".repeat(disp(&line[..hs])), "/\\")
        } else {
            format!("{}{}", " ".repeat(1 + disp(&line[..hs])), "-".repeat(disp(&line[hs..he])))
        };
        out.push(format!("{blank}{under}"));
    }
    out.push(blank);
    out
}

pub fn run() -> i32 {
    let mut rep = Report::new(
        "snippet",
        "every text of <= 2 lines (LF or CRLF) with lines of length <= 4 over {a, TAB, e-acute, CJK} x every span on character positions; rendered by the real emitter vs the oracle",
    );
    let alpha = ['a', '\t', 'é', '日'];
    let mut lines: Vec<Vec<char>> = vec![vec![]];
    let mut last: Vec<Vec<char>> = vec![vec![]];
    for _ in 0..4 {
        let mut next = vec![];
        for l in &last { for a in alpha { let mut n = l.clone(); n.push(a); next.push(n); } }
        lines.extend(next.iter().cloned());
        last = next;
    }
    let deep = std::env::var("VERIF_BOUNDED_DEEP").is_ok();
    let short: Vec<Vec<char>> = lines.iter().filter(|l| l.len() <= if deep { 3 } else { 2 }).cloned().collect();
    let mut texts: Vec<(Vec<Vec<char>>, &str)> = vec![];
    for l in &lines { texts.push((vec![l.clone()], "\n")); }
    for eol in ["\n", "\r\n"] {
        for l1 in &short { for l2 in &short { texts.push((vec![l1.clone(), l2.clone()], eol)); } }
    }
    let mut options = SliceOptions::default();
    options.disable_color = true;
    for (ls, eol) in &texts {
        let raw: String = ls.iter().map(|l| l.iter().collect::<String>() + eol).collect();
        let files = vec![SliceFile::new("t.slice".to_owned(), raw.clone(), true)];
        // every (row, col) position: col in 1..=len+1
        let mut positions = vec![];
        for (r, l) in ls.iter().enumerate() { for c in 0..=l.len() { positions.push((r + 1, c + 1)); } }
        for (i, s) in positions.iter().enumerate() {
            for e in &positions[i..] {
                let label = format!("text={raw:?} span={}:{}..{}:{}", s.0, s.1, e.0, e.1);
                rep.case(true, || label.clone());
                let span = Span::new(Location { row: s.0, col: s.1 }, Location { row: e.0, col: e.1 }, "t.slice");
                let files_ref = &files;
                let opts = &options;
                let out = std::panic::catch_unwind(std::panic::AssertUnwindSafe(|| {
                    let d = Diagnostic::new(Error::Syntax { message: "m".to_owned() }).set_span(&span);
                    let mut sink: Vec<u8> = vec![];
                    let mut emitter = slicec::diagnostic_emitter::DiagnosticEmitter::new(&mut sink, opts, files_ref);
                    emitter.emit_diagnostics(vec![d]).unwrap();
                    String::from_utf8(sink).unwrap()
                }));
                let text = match out {
                    Err(_) => { rep.counterexample(&label, "a rendered snippet", "PANIC"); continue; }
                    Ok(t) => t,
                };
                // output: "error [E002]: m" / " --> t.slice:r:c" / snippet lines. The comparison is STRUCTURAL, so that a
                // cosmetic change of the frame (gutter width, separator glyph, blank frame lines) is not an alarm:
                // a snippet line is <gutter><separator><rest>; the gutter holds the line number or blanks.
                let header_ok = text.lines().nth(1).map(|l| l.contains(&format!("t.slice:{}:{}", s.0, s.1))).unwrap_or(false);
                let want = expected(ls, *s, *e);
                let parse = |lines: Vec<String>| -> Option<Vec<(Option<usize>, String)>> {
                    // (line number shown in the gutter, text after the separator) for every non-blank frame line
                    let mut out = vec![];
                    for l in lines {
                        let chars: Vec<char> = l.chars().collect();
                        let p = chars.iter().position(|c| !c.is_ascii_digit() && *c != ' ')?;
                        let gutter: String = chars[..p].iter().collect();
                        let rest: String = chars[p + 1..].iter().collect();
                        if rest.trim().is_empty() && gutter.trim().is_empty() { continue; }
                        out.push((gutter.trim().parse::<usize>().ok(), rest.trim_end().to_owned()));
                    }
                    Some(out)
                };
                let got_p = parse(text.lines().skip(2).map(|l| l.trim_end_matches('\r').to_owned()).collect());
                let want_p = parse(want.clone());
                // per displayed line: number, text (relative to its own indentation after the separator), and the
                // underline's offset relative to that text, its glyphs and its length
                let rel = |v: &Vec<(Option<usize>, String)>| -> Option<Vec<(usize, String, isize, String)>> {
                    let mut out = vec![];
                    let mut i = 0;
                    while i + 1 < v.len() {
                        let (Some(n), shown) = (&v[i].0, &v[i].1) else { return None };
                        let lead = shown.chars().take_while(|c| *c == ' ').count() .min(1);
                        let under = &v[i + 1].1;
                        if v[i + 1].0.is_some() { return None; }
                        let off = under.chars().take_while(|c| *c == ' ').count() as isize - lead as isize;
                        out.push((*n, shown.chars().skip(lead).collect(), off, under.trim().to_owned()));
                        i += 2;
                    }
                    if i != v.len() { return None; }
                    Some(out)
                };
                let ok = match (got_p.as_ref().and_then(rel), want_p.as_ref().and_then(rel)) { (Some(g), Some(w)) => g == w, _ => false };
                if !header_ok || !ok {
                    rep.counterexample(&label, &want.join("\n"), &text);
                }
            }
        }
    }
    rep.finish()
}
