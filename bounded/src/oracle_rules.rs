//! C04 (bounded stand-in): a program is accepted only if it satisfies every rule, and an ill-formed one is
//! rejected with a code that belongs to a rule it actually violates -- small-scope EXHAUSTIVE families compared
//! with an independent reference checker written from the property's rule list.
//!
//!  F1 members   every assignment of {no tag, tag 1, tag 2} x {optional, not} x {fresh name, repeated name} over
//!               <= 3 members, in a struct, a compact struct, an enumerator's fields, a compact enum's fields, an
//!               operation's parameters and a return tuple;
//!  F2 streams   every placement of `stream` over <= 3 parameters / return members;
//!  F3 values    for every underlying type (and none): enumerator values min-1, min, max, max+1 and a repeated
//!               value; non-integral and optional underlying types; fields under an underlying type; empty
//!               checked / unchecked enums; tag values -1, 0, 2^31-1, 2^31;
//!  F4 keys      every dictionary key type over primitives, wrappers, optional, enums, custom types, compact and
//!               non-compact structs with legal / illegal / optional / nested fields (depth 2).
//!
//! Verdict compared: accepted <=> the reference finds no violation; when rejected, every reported error code is
//! the code of a rule the reference says is violated.
use crate::Report;
use slicec::diagnostics::DiagnosticLevel;
use slicec::slice_options::SliceOptions;
use std::collections::BTreeSet;

fn codes(text: &str) -> Result<BTreeSet<String>, String> {
    let t2 = text.to_owned();
    std::panic::catch_unwind(move || {
        let options = SliceOptions::default();
        let state = slicec::compile_from_strings(&[&t2], Some(&options));
        state.into_diagnostics(&options).iter().filter(|d| d.level() == DiagnosticLevel::Error).map(|d| d.code().to_owned()).collect()
    }).map_err(|_| "PANIC".to_owned())
}

fn judge(rep: &mut Report, label: &str, text: &str, expected: &BTreeSet<&'static str>) {
    rep.case(true, || label.to_owned());
    match codes(text) {
        Err(m) => rep.counterexample(&format!("{label}\n{text}"), "a verdict", &m),
        Ok(got) => {
            let exp: BTreeSet<String> = expected.iter().map(|s| s.to_string()).collect();
            if exp.is_empty() && !got.is_empty() { rep.counterexample(&format!("{label}\n{text}"), "accepted (the reference checker finds no violated rule)", &format!("rejected with {got:?}")); }
            else if !exp.is_empty() && got.is_empty() { rep.counterexample(&format!("{label}\n{text}"), &format!("rejected with one of {exp:?}"), "accepted"); }
            else if !got.is_subset(&exp) { rep.counterexample(&format!("{label}\n{text}"), &format!("only codes of violated rules: {exp:?}"), &format!("{got:?}")); }
        }
    }
}

#[derive(Clone, Copy)]
struct M { tag: Option<u32>, opt: bool, dup_name: bool }

pub fn run() -> i32 {
    let mut rep = Report::new("rules", "F1: every tag / optional / repeated-name assignment over <= 3 members in 6 containers; F2: every stream placement over <= 3 members; F3: enumerator values at the bounds of every underlying type, value uniqueness over every sequence of <= 4 implicit / explicit enumerators, enum modifiers, tag bounds; F4: dictionary key types to depth 2; F5: every redeclaration of inherited operations over <= 3 operations, one and two levels -- verdict and codes vs an independent reference checker");
    let deep = std::env::var("VERIF_BOUNDED_DEEP").is_ok();
    // ---- F1 ---------------------------------------------------------------------------------------------------
    let shapes: Vec<M> = { let mut v = vec![]; for tag in [None, Some(1), Some(2)] { for opt in [false, true] { for dup_name in [false, true] { v.push(M { tag, opt, dup_name }); } } } v };
    let containers = ["struct", "compact struct", "enumerator", "compact enumerator", "parameters", "return tuple"];
    for n in 0..=3usize {
        let total = shapes.len().pow(n as u32);
        for c in 0..total {
            if n == 3 && c % 5 != 0 && !deep { continue; }
            let mut ms = vec![];
            let mut cc = c;
            for _ in 0..n { ms.push(shapes[cc % shapes.len()]); cc /= shapes.len(); }
            if ms.first().map(|m| m.dup_name).unwrap_or(false) { continue; } // the first member has nothing to repeat
            let members: Vec<String> = ms.iter().enumerate().map(|(i, m)| format!("{}{}: bool{}", m.tag.map(|t| format!("tag({t}) ")).unwrap_or_default(), if m.dup_name { "m0".to_owned() } else { format!("m{i}") }, if m.opt { "?" } else { "" })).collect();
            let list = members.join(", ");
            for cont in containers {
                if cont == "return tuple" && n < 2 { continue; }
                let text = match cont {
                    "struct" => format!("module M\nstruct S {{ {list} }}\n"),
                    "compact struct" => format!("module M\ncompact struct S {{ {list} }}\n"),
                    "enumerator" => format!("module M\nenum E {{ A({list}) }}\n"),
                    "compact enumerator" => format!("module M\ncompact enum E {{ A({list}) }}\n"),
                    "parameters" => format!("module M\ninterface I {{ op({list}) }}\n"),
                    _ => format!("module M\ninterface I {{ op() -> ({list}) }}\n"),
                };
                let compact = cont.starts_with("compact");
                let mut exp: BTreeSet<&'static str> = BTreeSet::new();
                if ms.iter().any(|m| m.tag.is_some() && !m.opt) { exp.insert("E016"); }
                let tags: Vec<u32> = ms.iter().filter_map(|m| m.tag).collect();
                if tags.iter().enumerate().any(|(i, t)| tags[..i].contains(t)) { exp.insert("E012"); }
                if compact && !tags.is_empty() { exp.insert("E015"); }
                if cont == "compact struct" && n == 0 { exp.insert("E018"); }
                if ms.iter().any(|m| m.dup_name) { exp.insert("E010"); }
                judge(&mut rep, &format!("F1 {cont}: ({list})"), &text, &exp);
            }
        }
    }
    // ---- F2 ---------------------------------------------------------------------------------------------------
    for n in 1..=3usize {
        for mask in 0..(1u32 << n) {
            let list = (0..n).map(|i| format!("p{i}: {}bool", if mask & (1 << i) != 0 { "stream " } else { "" })).collect::<Vec<_>>().join(", ");
            let streamed: Vec<usize> = (0..n).filter(|i| mask & (1 << i) != 0).collect();
            let mut exp: BTreeSet<&'static str> = BTreeSet::new();
            if streamed.len() > 1 { exp.insert("E029"); }
            if streamed.iter().any(|i| *i != n - 1) { exp.insert("E013"); }
            judge(&mut rep, &format!("F2 parameters ({list})"), &format!("module M\ninterface I {{ op({list}) }}\n"), &exp);
            if n >= 2 { judge(&mut rep, &format!("F2 return tuple ({list})"), &format!("module M\ninterface I {{ op() -> ({list}) }}\n"), &exp); }
        }
    }
    judge(&mut rep, "F2 return tuple of one", "module M\ninterface I { op() -> (r: bool) }\n", &["E014"].into());
    judge(&mut rep, "F2 return tuple of none", "module M\ninterface I { op() -> () }\n", &["E014"].into());
    // ---- F3 ---------------------------------------------------------------------------------------------------
    let bounds: [(&str, i128, i128); 12] = [("int8", -128, 127), ("uint8", 0, 255), ("int16", -32768, 32767), ("uint16", 0, 65535), ("int32", -2147483648, 2147483647), ("uint32", 0, 4294967295),
        ("varint32", -2147483648, 2147483647), ("varuint32", 0, 4294967295), ("int64", i64::MIN as i128, i64::MAX as i128), ("uint64", 0, u64::MAX as i128),
        ("varint62", -(1i128 << 61), (1i128 << 61) - 1), ("varuint62", 0, (1i128 << 62) - 1)];
    for (ty, min, max) in bounds {
        for v in [min - 1, min, max, max + 1] {
            let exp: BTreeSet<&'static str> = if v < min || v > max { ["E020"].into() } else { BTreeSet::new() };
            judge(&mut rep, &format!("F3 enum : {ty} value {v}"), &format!("module M\nenum E : {ty} {{ A = {v} }}\n"), &exp);
        }
        judge(&mut rep, &format!("F3 enum : {ty} repeated value"), &format!("module M\nenum E : {ty} {{ A = 1, B = 1 }}\n"), &["E022"].into());
        judge(&mut rep, &format!("F3 enum : {ty} implicit value after the maximum"), &format!("module M\nenum E : {ty} {{ A = {max}, B }}\n"), &["E020"].into());
    }
    for v in [-1i128, 0, 2147483647, 2147483648] {
        let exp: BTreeSet<&'static str> = if !(0..=2147483647).contains(&v) { ["E020"].into() } else { BTreeSet::new() };
        judge(&mut rep, &format!("F3 enum without underlying type, value {v}"), &format!("module M\nenum E {{ A = {v} }}\n"), &exp);
    }
    // value uniqueness under implicit numbering: every sequence of <= 4 enumerators, each implicit or explicit with a value in 0..=3
    // (an implicit value is the previous one + 1, starting at 0): E022 iff two enumerators end up with the same value
    for n in 1..=4usize {
        for code in 0..5usize.pow(n as u32) {
            let choice: Vec<usize> = (0..n).map(|i| (code / 5usize.pow(i as u32)) % 5).collect();   // 4 = implicit
            let mut values: Vec<i128> = vec![];
            let mut decl: Vec<String> = vec![];
            for (i, c) in choice.iter().enumerate() {
                let v = if *c == 4 { values.last().map(|p| p + 1).unwrap_or(0) } else { *c as i128 };
                values.push(v);
                decl.push(if *c == 4 { format!("E{i}") } else { format!("E{i} = {c}") });
            }
            let dup = (0..n).any(|i| (0..i).any(|j| values[i] == values[j]));
            let exp: BTreeSet<&'static str> = if dup { ["E022"].into() } else { BTreeSet::new() };
            for (head, sep) in [("enum E : uint8", ", "), ("unchecked enum E : int32", " "), ("enum E", ", ")] {
                judge(&mut rep, &format!("F3 uniqueness {head} {decl:?}"), &format!("module M\n{head} {{ {} }}\n", decl.join(sep)), &exp);
            }
        }
    }
    for (ty, code) in [("bool", "E009"), ("string", "E009"), ("float32", "E009"), ("float64", "E009")] {
        judge(&mut rep, &format!("F3 enum : {ty}"), &format!("module M\nenum E : {ty} {{ A }}\n"), &[code].into());
    }
    judge(&mut rep, "F3 optional underlying type", "module M\nenum E : int32? { A }\n", &["E007"].into());
    judge(&mut rep, "F3 fields under an underlying type", "module M\nenum E : int32 { A(x: bool) }\n", &["E035"].into());
    judge(&mut rep, "F3 empty checked enum", "module M\nenum E {}\n", &["E008"].into());
    judge(&mut rep, "F3 empty checked enum with underlying", "module M\nenum E : uint8 {}\n", &["E008"].into());
    judge(&mut rep, "F3 empty unchecked enum", "module M\nunchecked enum E : uint8 {}\n", &BTreeSet::new());
    judge(&mut rep, "F3 compact unchecked enum", "module M\ncompact unchecked enum E { A(x: bool) }\n", &["E036"].into());
    judge(&mut rep, "F3 compact enum with underlying", "module M\ncompact enum E : uint8 { A }\n", &["E036"].into());
    judge(&mut rep, "F3 compact enum", "module M\ncompact enum E { A(x: bool), B(y: string) }\n", &BTreeSet::new());
    for v in [-1i128, 0, 2147483647, 2147483648] {
        let exp: BTreeSet<&'static str> = if !(0..=2147483647).contains(&v) { ["E021"].into() } else { BTreeSet::new() };
        judge(&mut rep, &format!("F3 tag({v})"), &format!("module M\nstruct S {{ tag({v}) a: bool? }}\n"), &exp);
    }
    judge(&mut rep, "F3 alias of an optional type", "module M\ntypealias A = bool?\n", &["E034"].into());
    judge(&mut rep, "F3 definition before the module declaration", "struct S {}\nmodule M\n", &["E002"].into());
    // ---- F5: no redeclaration of an inherited operation -------------------------------------------------------------
    // base I { first() second() third() }; J : I declares every subset / order of {first, second, third, own} (<= 3 ops);
    // K : J (two levels) redeclares one of them
    let pool = ["first", "second", "third", "own"];
    let mut lists: Vec<Vec<&str>> = vec![vec![]];
    for a in pool { lists.push(vec![a]); for b in pool { if b != a { lists.push(vec![a, b]); for c in pool { if c != a && c != b { lists.push(vec![a, b, c]); } } } } }
    for ops in &lists {
        let body = ops.iter().map(|o| format!("{o}()")).collect::<Vec<_>>().join(" ");
        let redeclared = ops.iter().any(|o| *o != "own");
        let exp: BTreeSet<&'static str> = if redeclared { ["E011"].into() } else { BTreeSet::new() };
        judge(&mut rep, &format!("F5 J : I {{ {body} }}"), &format!("module M\ninterface I {{ first() second() third() }}\ninterface J : I {{ {body} }}\n"), &exp);
        judge(&mut rep, &format!("F5 K : J : I {{ {body} }} (two levels)"), &format!("module M\ninterface I {{ first() second() third() }}\ninterface J : I {{ mid() }}\ninterface K : J {{ {body} }}\n"), &exp);
    }
    judge(&mut rep, "F5 diamond: the same inherited operation through two bases is not a redeclaration", "module M\ninterface I { first() }\ninterface A : I {}\ninterface B : I {}\ninterface D : A, B { own() }\n", &BTreeSet::new());
    // ---- F4 ---------------------------------------------------------------------------------------------------
    let prelude = "module M\nenum En { A, B }\nunchecked enum Un : uint8 { A }\ncustom Cu\nstruct Plain { a: bool }\ncompact struct CGood { a: bool, b: string }\ncompact struct CFloat { a: float32 }\ncompact struct COpt { a: bool? }\ncompact struct CNested { a: CGood, b: int32 }\ncompact struct CNestedBad { a: CFloat }\ncompact struct CSeq { a: Sequence<bool> }\ncompact struct CPlainInside { a: Plain }\ninterface I {}\n";
    let keys: [(&str, &[&str]); 28] = [
        ("bool", &[]), ("int8", &[]), ("uint8", &[]), ("int16", &[]), ("uint16", &[]), ("int32", &[]), ("uint32", &[]), ("varint32", &[]), ("varuint32", &[]), ("int64", &[]), ("uint64", &[]), ("varint62", &[]), ("varuint62", &[]), ("string", &[]),
        ("float32", &["E005"]), ("float64", &["E005"]), ("Sequence<bool>", &["E005"]), ("Dictionary<bool, bool>", &["E005"]), ("Result<bool, bool>", &["E005"]), ("bool?", &["E003"]),
        ("En", &["E005"]), ("Un", &[]), ("Sequence<string>", &["E005"]), ("Cu", &[]), ("Plain", &["E004"]), ("CGood", &[]), ("CNested", &[]), ("CFloat", &["E005", "E006"]),
    ];
    for (k, exp) in keys {
        judge(&mut rep, &format!("F4 key {k}"), &format!("{prelude}struct D {{ d: Dictionary<{k}, bool> }}\n"), &exp.iter().cloned().collect());
    }
    for (k, exp) in [("COpt", vec!["E003", "E006"]), ("CNestedBad", vec!["E005", "E006"]), ("CSeq", vec!["E005", "E006"]), ("CPlainInside", vec!["E004", "E006"])] {
        judge(&mut rep, &format!("F4 key {k}"), &format!("{prelude}struct D {{ d: Dictionary<{k}, bool> }}\n"), &exp.into_iter().collect());
    }
    // ---- F6: "attributes only where legal, well-formed and not repeated". Reference table (the language's attribute catalogue): allow(>=1 lint
    //      names, not DuplicateFile) anywhere except modules and type references, repeatable; deprecated(<=1 argument) not on modules, type
    //      references, files, parameters / return members; compress / slicedFormat(>=1 of Args, Return) and oneway(no argument) on operations
    //      only, oneway only without return values; unknown unprefixed directives nowhere; foreign `x::y(...)` attributes anywhere, repeatable.
    {
        let targets: [(&str, &str, &str); 17] = [
            ("operation with a streamed return", "module M\ninterface I { [@] op(a: int32) -> stream uint8 }\n", "opret"), ("operation with a return tuple", "module M\ninterface I { [@] op() -> (a: bool, b: stream uint8) }\n", "opret"), ("operation with streamed parameter only", "module M\ninterface I { [@] op(a: stream uint8) }\n", "op"),
            ("file", "[[@]]\nmodule M\nstruct S { a: bool }\n", "file"), ("module", "[@]\nmodule M\nstruct S { a: bool }\n", "module"),
            ("struct", "module M\n[@] struct S { a: bool }\n", "def"), ("field", "module M\nstruct S { [@] a: bool }\n", "def"),
            ("type reference", "module M\nstruct S { a: [@] bool }\n", "typeref"), ("interface", "module M\n[@] interface I { op() }\n", "def"),
            ("operation without return", "module M\ninterface I { [@] op(p: bool) }\n", "op"), ("operation with return", "module M\ninterface I { [@] op() -> bool }\n", "opret"),
            ("parameter", "module M\ninterface I { op([@] p: bool) }\n", "param"), ("return member", "module M\ninterface I { op() -> ([@] a: bool, b: bool) }\n", "param"),
            ("enum", "module M\n[@] enum E { A }\n", "def"), ("enumerator", "module M\nenum E { [@] A }\n", "def"),
            ("custom type", "module M\n[@] custom C\n", "def"), ("type alias", "module M\n[@] typealias T = bool\n", "def"),
        ];
        // (attribute text, kind, arguments well-formed?)
        let attrs: [(&str, &str, bool); 28] = [
            ("allow(Deprecated)", "allow", true), ("allow(All, BrokenDocLink)", "allow", true), ("allow(Nope)", "allow", false), ("allow()", "allow", false), ("allow", "allow", false),
            ("allow(DuplicateFile)", "allow", false), ("allow(deprecated)", "allow", false),
            // every argument is validated, wherever it stands: a bad one after a good one (or after `All`) is still bad
            ("allow(All, Nope)", "allow", false), ("allow(Deprecated, Nope)", "allow", false), ("allow(All, DuplicateFile)", "allow", false), ("allow(Nope, All)", "allow", false),
            ("compress(Args, Bad)", "operation-only", false), ("slicedFormat(Args, Return, Foo)", "operation-only", false),
            ("deprecated", "deprecated", true), ("deprecated(\"reason\")", "deprecated", true), ("deprecated(\"a\", \"b\")", "deprecated", false),
            ("compress(Args)", "operation-only", true), ("compress(Args, Return)", "operation-only", true), ("compress", "operation-only", false), ("compress(Bad)", "operation-only", false), ("compress(args)", "operation-only", false),
            ("slicedFormat(Return)", "operation-only", true), ("slicedFormat(Foo)", "operation-only", false),
            ("oneway", "oneway", true), ("oneway(x)", "oneway", false),
            ("foo", "unknown", true), ("foo(a)", "unknown", true), ("x::foo(a, \"b c\")", "foreign", true),
        ];
        let legal_on = |kind: &str, target: &str| -> bool {
            match kind {
                "allow" => !matches!(target, "module" | "typeref"),
                "deprecated" => !matches!(target, "module" | "typeref" | "file" | "param"),
                "operation-only" => matches!(target, "op" | "opret"),
                "oneway" => target == "op",
                "foreign" => true,
                _ => false,
            }
        };
        for (tname, template, tkind) in targets {
            for (atext, akind, well_formed) in attrs {
                let ok = legal_on(akind, tkind) && well_formed;
                let text = template.replace('@', atext);
                rep.case(true, || format!("F6 [{atext}] on {tname}"));
                match codes(&text) {
                    Err(m) => rep.counterexample(&format!("F6 [{atext}] on {tname}\n{text}"), "a verdict", &m),
                    Ok(got) => if ok != got.is_empty() { rep.counterexample(&format!("F6 [{atext}] on {tname}\n{text}"), if ok { "accepted: the attribute is legal here and well-formed" } else { "rejected: the attribute is not legal here, or malformed" }, &format!("{got:?}")); },
                }
            }
            // repetition: non-repeatable attributes at most once; allow and foreign attributes may repeat
            for (pair, kind, repeatable) in [("deprecated] [deprecated(\"x\")", "deprecated", false), ("allow(All)] [allow(Deprecated)", "allow", true), ("compress(Args)] [compress(Return)", "operation-only", false), ("oneway] [oneway", "oneway", false), ("x::a] [x::a(b)", "foreign", true), ("deprecated] [x::y] [allow(All)", "deprecated", true)] {
                let legal = legal_on(kind, tkind) && (kind != "deprecated" || pair.contains("x::y") || true) && (if pair.contains("allow(All)") { legal_on("allow", tkind) } else { true });
                let ok = legal && repeatable;
                let text = if tkind == "file" { template.replace("[[@]]", &format!("[[{}]]", pair.replace("] [", "]]\n[["))) } else { template.replace('@', pair) };
                rep.case(true, || format!("F6 [{pair}] on {tname}"));
                match codes(&text) {
                    Err(m) => rep.counterexample(&format!("F6 [{pair}] on {tname}\n{text}"), "a verdict", &m),
                    Ok(got) => if ok != got.is_empty() { rep.counterexample(&format!("F6 [{pair}] on {tname}\n{text}"), if ok { "accepted: every attribute is legal here and none is repeated illegally" } else { "rejected: an attribute is illegal here or repeated" }, &format!("{got:?}")); },
                }
            }
        }
    }
    rep.finish()
}
