//! C16 (bounded stand-in): doc comments keep their text, tags and links.
//!
//! Model-generated `///` comments are compiled by the REAL compiler and `Commentable::comment()` is compared
//! with an oracle written from the property's sentence:
//!   * overview and tag messages == the written lines with their COMMON INDENTATION (the smallest number of
//!     leading white-space characters over the non-empty lines) removed, one line break per line;
//!   * an inline tag message (`@param a: text`) has its leading blanks removed and is followed by its
//!     continuation lines, stripped among themselves;
//!   * @param / @returns / @see carry the identifiers written, in order;
//!   * malformed comments produce warnings, never errors, and never cost the element or its sibling.
use crate::Report;
use slicec::diagnostics::DiagnosticLevel;
use slicec::grammar::*;
use slicec::slice_options::SliceOptions;

fn render(m: &Message) -> String {
    m.value.iter().map(|c| match c {
        MessageComponent::Text(t) => t.clone(),
        MessageComponent::Link(l) => format!("{{@link {}}}", match l.linked_entity() { Ok(e) => e.identifier().to_owned(), Err(id) => id.value.clone() }),
    }).collect()
}

/// the property's sentence, for a list of written lines (text after the `///`)
fn stripped(lines: &[String]) -> String {
    let ws = |l: &str| l.chars().take_while(|c| c.is_whitespace()).count();
    let common = lines.iter().filter(|l| !l.trim().is_empty()).map(|l| ws(l)).min().unwrap_or(0);
    lines.iter().map(|l| if l.trim().is_empty() { "\n".to_owned() } else { l.chars().skip(common).collect::<String>() + "\n" }).collect()
}

struct Got { overview: Option<String>, params: Vec<(String, String)>, returns: Vec<(Option<String>, String)>, see: Vec<String>, errors: usize, warnings: usize, has_s: bool, has_t: bool, has_comment: bool }

fn compile(comment_lines: &[String], on_operation: bool) -> Result<Got, String> {
    let doc: String = comment_lines.iter().map(|l| format!("    ///{l}\n")).collect();
    let text = if on_operation {
        format!("module M\nstruct T {{}}\nstruct U {{}}\ninterface S {{\n{doc}    op(a: bool, b: T) -> string\n}}\n")
    } else {
        format!("module M\nstruct T {{}}\nstruct U {{}}\n{}struct S {{}}\n", doc.replace("    ///", "///"))
    };
    std::panic::catch_unwind(move || {
        let options = SliceOptions::default();
        let state = slicec::compile_from_strings(&[&text], Some(&options));
        let c: Option<(Option<String>, Vec<(String, String)>, Vec<(Option<String>, String)>, Vec<String>)> = if on_operation {
            state.ast.find_element::<Operation>("M::S::op").ok().and_then(|o| o.comment()).map(|c| (c.overview.as_ref().map(render), c.params.iter().map(|p| (p.identifier.value.clone(), render(&p.message))).collect(), c.returns.iter().map(|r| (r.identifier.as_ref().map(|i| i.value.clone()), render(&r.message))).collect(), c.see.iter().map(|s| match s.linked_entity() { Ok(e) => e.identifier().to_owned(), Err(id) => id.value.clone() }).collect()))
        } else {
            state.ast.find_element::<Struct>("M::S").ok().and_then(|o| o.comment()).map(|c| (c.overview.as_ref().map(render), vec![], vec![], c.see.iter().map(|s| match s.linked_entity() { Ok(e) => e.identifier().to_owned(), Err(id) => id.value.clone() }).collect()))
        };
        let has_s = if on_operation { state.ast.find_element::<Operation>("M::S::op").is_ok() } else { state.ast.find_element::<Struct>("M::S").is_ok() };
        let has_t = state.ast.find_element::<Struct>("M::T").is_ok();
        let diags = state.into_diagnostics(&options);
        let errors = diags.iter().filter(|d| d.level() == DiagnosticLevel::Error).count();
        let warnings = diags.iter().filter(|d| d.level() == DiagnosticLevel::Warning).count();
        let has_comment = c.is_some();
        let (overview, params, returns, see) = c.unwrap_or((None, vec![], vec![], vec![]));
        Got { overview, params, returns, see, errors, warnings, has_s, has_t, has_comment }
    }).map_err(|_| "PANIC".to_owned())
}

pub fn run() -> i32 {
    let mut rep = Report::new("comments", "overviews of 1..=3 lines over 6 line bodies x 5 indentations per line; block tags with inline + <=2 continuation lines over 4 indentations; tag identifier order; inline messages with links; link binding from the element's own scope outwards; 14 malformed forms in 2 positions");
    let indents = ["", " ", "  ", "\u{a0}", " \u{3000}"];
    let bodies = ["alpha", "beta gamma", "{@link T} starts", "mid {@link T} dle", "ends {@link T}", ""];
    // ---- overviews ---------------------------------------------------------------------------------
    let mut line_sets: Vec<Vec<String>> = vec![];
    let mk = |i: &str, b: &str| if b.is_empty() { String::new() } else { format!("{i}{b}") };
    for i1 in indents { for b1 in bodies { if b1.is_empty() { continue; } line_sets.push(vec![mk(i1, b1)]); } }
    for i1 in indents { for b1 in bodies { if b1.is_empty() { continue; } for i2 in indents { for b2 in bodies { line_sets.push(vec![mk(i1, b1), mk(i2, b2)]); } } } }
    for i1 in [" ", "  ", "\u{a0}"] { for i2 in indents { for i3 in [" ", "   "] { for (b1, b2, b3) in [("alpha", "", "beta gamma"), ("alpha", "{@link T} starts", "omega"), ("mid {@link T} dle", "beta gamma", "ends {@link T}")] {
        line_sets.push(vec![mk(i1, b1), mk(i2, b2), mk(i3, b3)]);
    } } } }
    if std::env::var("VERIF_BOUNDED_DEEP").is_ok() {
        for i1 in indents { for b1 in bodies { if b1.is_empty() { continue; } for i2 in indents { for b2 in bodies { for i3 in indents { for b3 in bodies { if b3.is_empty() { continue; }
            line_sets.push(vec![mk(i1, b1), mk(i2, b2), mk(i3, b3)]);
        } } } } } }
    }
    for lines in &line_sets {
        if lines.last().map(|l| l.is_empty()).unwrap_or(false) { continue; } // a trailing blank line: nothing to check
        let label = format!("overview lines {:?}", lines);
        rep.case(true, || label.clone());
        match compile(lines, false) {
            Err(m) => rep.counterexample(&label, "a doc comment", &m),
            Ok(g) => {
                let want = stripped(lines);
                if g.errors > 0 || !g.has_s || !g.has_t { rep.counterexample(&label, "no error, both structs present", &format!("errors={} S={} T={}", g.errors, g.has_s, g.has_t)); }
                else if g.overview.as_deref() != Some(want.as_str()) { rep.counterexample(&label, &format!("overview {:?}", want), &format!("overview {:?}", g.overview)); }
            }
        }
    }
    // ---- block tags: inline message + continuation lines ---------------------------------------------
    let cont_indents = [" ", "   ", "\t", " \u{a0} "];
    let mut tag_cases: Vec<(Vec<String>, String)> = vec![];
    for lead in ["", " ", "   "] {
        tag_cases.push((vec![format!(" @param a:{lead}first")], "first\n".to_owned()));
        for c1 in cont_indents {
            tag_cases.push((vec![format!(" @param a:{lead}first"), format!("{c1}second")], "first\nsecond\n".to_owned()));
            for c2 in cont_indents {
                let conts = vec![format!("{c1}second"), format!("{c2}third {{@link T}}")];
                tag_cases.push((vec![format!(" @param a:{lead}first"), conts[0].clone(), conts[1].clone()], format!("first\n{}", stripped(&conts))));
            }
        }
    }
    for (lines, want) in &tag_cases {
        let label = format!("@param lines {:?}", lines);
        rep.case(true, || label.clone());
        match compile(lines, true) {
            Err(m) => rep.counterexample(&label, "a doc comment", &m),
            Ok(g) => {
                if g.errors > 0 || !g.has_s { rep.counterexample(&label, "no error, operation present", &format!("errors={} op={}", g.errors, g.has_s)); }
                else if g.params.len() != 1 || g.params[0].0 != "a" || &g.params[0].1 != want { rep.counterexample(&label, &format!("@param a with message {:?}", want), &format!("{:?}", g.params)); }
            }
        }
    }
    // ---- inline tag messages with links and trailing blanks -------------------------------------------
    for (line, want) in [
        (" @param a: The {@link T} to use.", "The {@link T} to use.\n"), (" @param a: {@link T} first", "{@link T} first\n"), (" @param a: ends with {@link T}", "ends with {@link T}\n"),
        (" @param a:   padded {@link T}  twice {@link U} ", "padded {@link T}  twice {@link U} \n"), (" @returns: The {@link U} value", "The {@link U} value\n"),
    ] {
        let lines = vec![line.to_owned()];
        let label = format!("inline tag message {:?}", line);
        rep.case(true, || label.clone());
        match compile(&lines, true) {
            Err(m) => rep.counterexample(&label, "a doc comment", &m),
            Ok(g) => {
                let got = if line.contains("@param") { g.params.first().map(|p| p.1.clone()) } else { g.returns.first().map(|r| r.1.clone()) };
                if g.errors > 0 || got.as_deref() != Some(want) { rep.counterexample(&label, &format!("message {:?}", want), &format!("{:?} (errors={})", got, g.errors)); }
            }
        }
    }
    // ---- links on EVERY kind of element that carries a doc comment: a good link and @see are bound, a broken one is a warning -------
    {
        let text = "module M\nstruct Target {}\n/// {@link Target} and {@link Nope1}.\n/// @see Target\nstruct S {\n    /// {@link Target} and {@link Nope2}.\n    /// @see Target\n    f: bool\n}\n/// {@link Target} and {@link Nope3}.\n/// @see Target\ninterface I {\n    /// {@link Target} and {@link Nope4}.\n    /// @see Target\n    op()\n}\n/// {@link Target} and {@link Nope5}.\n/// @see Target\nenum E {\n    /// {@link Target} and {@link Nope6}.\n    /// @see Target\n    A\n}\n/// {@link Target} and {@link Nope7}.\n/// @see Target\ncustom C\n/// {@link Target} and {@link Nope8}.\n/// @see Target\ntypealias T = bool\n";
        rep.case(true, || "links on every kind of element".to_owned());
        let t2 = text.to_owned();
        let out = std::panic::catch_unwind(move || {
            let options = SliceOptions::default();
            let state = slicec::compile_from_strings(&[&t2], Some(&options));
            let links = |c: Option<&DocComment>| -> Vec<String> {
                let mut v = vec![];
                if let Some(c) = c {
                    for comp in c.overview.iter().flat_map(|m| m.value.iter()) { if let MessageComponent::Link(l) = comp { v.push(match l.linked_entity() { Ok(e) => format!("{} {}", e.kind(), e.parser_scoped_identifier()), Err(id) => format!("?{}", id.value) }); } }
                    for s in &c.see { v.push(match s.linked_entity() { Ok(e) => format!("see {} {}", e.kind(), e.parser_scoped_identifier()), Err(id) => format!("see ?{}", id.value) }); }
                }
                v
            };
            let got = vec![
                ("struct", links(state.ast.find_element::<Struct>("M::S").ok().and_then(|e| e.comment()))),
                ("field", links(state.ast.find_element::<Field>("M::S::f").ok().and_then(|e| e.comment()))),
                ("interface", links(state.ast.find_element::<Interface>("M::I").ok().and_then(|e| e.comment()))),
                ("operation", links(state.ast.find_element::<Operation>("M::I::op").ok().and_then(|e| e.comment()))),
                ("enum", links(state.ast.find_element::<Enum>("M::E").ok().and_then(|e| e.comment()))),
                ("enumerator", links(state.ast.find_element::<Enumerator>("M::E::A").ok().and_then(|e| e.comment()))),
                ("custom type", links(state.ast.find_element::<CustomType>("M::C").ok().and_then(|e| e.comment()))),
                ("type alias", links(state.ast.find_element::<TypeAlias>("M::T").ok().and_then(|e| e.comment()))),
            ];
            let errors = state.diagnostics.has_errors();
            let mut diags: Vec<String> = state.into_diagnostics(&options).iter().map(|d| format!("{}: {}", d.code(), d.message())).collect();
            diags.sort();
            (got, diags, errors)
        });
        match out {
            Err(_) => rep.counterexample(text, "links", "PANIC"),
            Ok((got, diags, errors)) => {
                for (i, (kind, l)) in got.iter().enumerate() {
                    let want = vec!["struct M::Target".to_owned(), format!("?Nope{}", i + 1), "see struct M::Target".to_owned()];
                    if *l != want { rep.counterexample(text, &format!("the comment of the {kind}: {want:?}"), &format!("{l:?}")); }
                }
                let broken: Vec<&String> = diags.iter().filter(|d| d.starts_with("BrokenDocLink")).collect();
                if errors || broken.len() != 8 || (1..=8).any(|i| !broken.iter().any(|d| d.contains(&format!("Nope{i}")))) { rep.counterexample(text, "no error, and one BrokenDocLink warning for each of Nope1..Nope8", &format!("errors={errors} {diags:?}")); }
            }
        }
    }
    // ---- link binding: the same outward search as types, starting AT the documented element ----------
    {
        let text = "module M\nstruct Stop {}\nstruct On {}\n/// Either {@link On} or {@link Off}; see {@link Stop} and {@link M::Stop}.\n/// @see Off\n/// @see Stop\nenum Switch { On, Off }\n/// Uses {@link go} and {@link Switch::On}.\ninterface I {\n    /// Like {@link go}, unlike {@link Stop}.\n    go()\n}\n";
        rep.case(true, || "link binding".to_owned());
        let t2 = text.to_owned();
        let out = std::panic::catch_unwind(move || {
            let options = SliceOptions::default();
            let state = slicec::compile_from_strings(&[&t2], Some(&options));
            let links = |c: Option<&DocComment>| -> Vec<String> {
                let mut v = vec![];
                if let Some(c) = c {
                    for comp in c.overview.iter().flat_map(|m| m.value.iter()) { if let MessageComponent::Link(l) = comp { v.push(match l.linked_entity() { Ok(e) => format!("{} {}", e.kind(), e.parser_scoped_identifier()), Err(id) => format!("?{}", id.value) }); } }
                    for s in &c.see { v.push(match s.linked_entity() { Ok(e) => format!("see {} {}", e.kind(), e.parser_scoped_identifier()), Err(id) => format!("see ?{}", id.value) }); }
                }
                v
            };
            let mut got = vec![];
            got.push(links(state.ast.find_element::<Enum>("M::Switch").ok().and_then(|e| e.comment())));
            got.push(links(state.ast.find_element::<Interface>("M::I").ok().and_then(|e| e.comment())));
            got.push(links(state.ast.find_element::<Operation>("M::I::go").ok().and_then(|e| e.comment())));
            let diags: Vec<String> = state.into_diagnostics(&options).iter().map(|d| format!("{}: {}", d.code(), d.message())).collect();
            (got, diags)
        });
        let want: Vec<Vec<String>> = vec![
            vec!["enumerator M::Switch::On".into(), "enumerator M::Switch::Off".into(), "struct M::Stop".into(), "struct M::Stop".into(), "see enumerator M::Switch::Off".into(), "see struct M::Stop".into()],
            vec!["operation M::I::go".into(), "enumerator M::Switch::On".into()],
            vec!["operation M::I::go".into(), "struct M::Stop".into()],
        ];
        match out {
            Err(_) => rep.counterexample(text, "links", "PANIC"),
            Ok((got, diags)) => if got != want || !diags.is_empty() { rep.counterexample(text, &format!("{want:?}, no diagnostics"), &format!("{got:?} diagnostics={diags:?}")); },
        }
    }
    // ---- link binding in EVERY section of one comment: overview, each @param / @returns message and the @see tags, with different and
    //      partly unresolvable targets in each (a queue of computed bindings applied in a different order than it was filled swaps them)
    {
        let text = "module M\nstruct Key {}\nstruct Value {}\nstruct Cache {}\nstruct Other {}\ninterface I {\n    /// Looks up {@link Other} things.\n    /// @param k: the {@link Key} to look for, not a {@link Missing1}\n    /// @param d: a default {@link Value}\n    /// @returns: the {@link Value} found, or {@link Missing2}\n    /// @see Cache\n    /// @see Missing3\n    /// @see Key\n    get(k: Key, d: Value) -> Value\n}\n";
        rep.case(true, || "link binding, all sections".to_owned());
        let t2 = text.to_owned();
        let out = std::panic::catch_unwind(move || {
            let options = SliceOptions::default();
            let state = slicec::compile_from_strings(&[&t2], Some(&options));
            let show = |l: &Result<&dyn Entity, &Identifier>| match l { Ok(e) => e.parser_scoped_identifier(), Err(id) => format!("?{}", id.value) };
            let of = |m: &Message| -> Vec<String> { m.value.iter().filter_map(|c| if let MessageComponent::Link(l) = c { Some(show(&l.linked_entity())) } else { None }).collect() };
            let mut got: Vec<(String, Vec<String>)> = vec![];
            if let Some(c) = state.ast.find_element::<Operation>("M::I::get").ok().and_then(|o| o.comment()) {
                got.push(("overview".into(), c.overview.as_ref().map(|m| of(m)).unwrap_or_default()));
                for p in &c.params { got.push((format!("param {}", p.identifier.value), of(&p.message))); }
                for r in &c.returns { got.push(("returns".into(), of(&r.message))); }
                got.push(("see".into(), c.see.iter().map(|s| show(&s.linked_entity())).collect()));
            }
            let errors = state.diagnostics.has_errors();
            (got, errors)
        });
        let want: Vec<(String, Vec<String>)> = vec![
            ("overview".into(), vec!["M::Other".into()]), ("param k".into(), vec!["M::Key".into(), "?Missing1".into()]), ("param d".into(), vec!["M::Value".into()]),
            ("returns".into(), vec!["M::Value".into(), "?Missing2".into()]), ("see".into(), vec!["M::Cache".into(), "?Missing3".into(), "M::Key".into()]),
        ];
        match out {
            Err(_) => rep.counterexample(text, "links", "PANIC"),
            Ok((got, errors)) => if got != want || errors { rep.counterexample(text, &format!("{want:?}, warnings only"), &format!("{got:?} errors={errors}")); },
        }
    }
    // ---- identifiers and order of tags ---------------------------------------------------------------
    let ordered = vec![" Overview.".to_owned(), " @param b: the b".to_owned(), " @param a: the a".to_owned(), " @returns: the value".to_owned(), " @see U".to_owned(), " @see T".to_owned(), " @see M::S".to_owned()];
    rep.case(true, || "tag order".to_owned());
    match compile(&ordered, true) {
        Err(m) => rep.counterexample("tag order", "a doc comment", &m),
        Ok(g) => {
            let ok = g.params.iter().map(|p| p.0.as_str()).collect::<Vec<_>>() == ["b", "a"] && g.returns.len() == 1 && g.returns[0].0.is_none() && g.returns[0].1 == "the value\n" && g.see == ["U", "T", "S"] && g.overview.as_deref() == Some("Overview.\n") && g.errors == 0;
            if !ok { rep.counterexample(&format!("{ordered:?}"), "params [b, a], one unnamed @returns 'the value', see [U, T, S], overview 'Overview.'", &format!("params={:?} returns={:?} see={:?} overview={:?} errors={}", g.params, g.returns, g.see, g.overview, g.errors)); }
        }
    }
    // ---- malformed forms: warnings only, nothing lost -----------------------------------------------
    let malformed = [" @unknown x", " {@link T", " {@param a}", " @", " @param", " text } stray", " @see", " @param a b: x", " {@link}", " @returns a b", " {@ link T}", " @param: x", " {@link T} {@", " @see T U"];
    for m in malformed {
        for on_op in [false, true] {
            let lines = vec![" fine".to_owned(), m.to_owned()];
            let label = format!("malformed {:?} on {}", m, if on_op { "an operation" } else { "a struct" });
            rep.case(true, || label.clone());
            match compile(&lines, on_op) {
                Err(e) => rep.counterexample(&label, "warnings only", &e),
                Ok(g) => {
                    if g.errors > 0 || !g.has_s || !g.has_t { rep.counterexample(&label, "no error; the documented element and its sibling survive", &format!("errors={} element={} sibling={}", g.errors, g.has_s, g.has_t)); }
                    else if g.warnings == 0 && !g.has_comment { rep.counterexample(&label, "a warning when the comment is dropped", "comment dropped silently"); }
                }
            }
        }
    }
    rep.finish()
}
