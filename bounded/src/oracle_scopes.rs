//! C03 (bounded stand-in): type references bind to the entity the scoping rules designate.
//!
//! Three nested module levels (A, A::B, A::B::C -- one file each), a struct `T` present at every SUBSET of the
//! levels, a referencing field in a struct at each level, and every reference spelling (bare, partially
//! qualified, fully qualified, `::`-global): the field's type must be the definition found by searching from
//! the referencing module outwards and finally the global scope (`::` = global only), or the compilation must
//! fail with an error when nothing is designated -- never a silent binding to something else. Then the same
//! through a type alias (resolved in the ALIAS's scope, transparently, with the alias's type attributes carried
//! along), with the wrong kind (an interface where a type is needed), in both file orders, and retrieval of
//! every definition, field, enumerator and operation by its fully scoped name.
use crate::Report;
use slicec::grammar::*;
use slicec::slice_options::SliceOptions;

const LEVELS: [&str; 3] = ["A", "A::B", "A::B::C"];

/// the property's search: innermost module outwards, then global; `::` prefix = global only
fn resolve(defined: &[String], scope: &str, spelling: &str) -> Option<String> {
    if let Some(global) = spelling.strip_prefix("::") { return defined.iter().find(|d| d.as_str() == global).cloned(); }
    let mut parts: Vec<&str> = scope.split("::").collect();
    loop {
        let cand = if parts.is_empty() { spelling.to_owned() } else { format!("{}::{}", parts.join("::"), spelling) };
        if defined.contains(&cand) { return Some(cand); }
        if parts.is_empty() { return None; }
        parts.pop();
    }
}

fn compile(files: &[String]) -> Result<(slicec::compilation_state::CompilationState, usize), String> {
    let fs = files.to_vec();
    std::panic::catch_unwind(move || {
        let refs: Vec<&str> = fs.iter().map(|s| s.as_str()).collect();
        let options = SliceOptions::default();
        let state = slicec::compile_from_strings(&refs, Some(&options));
        let errors = state.diagnostics.has_errors() as usize;
        (state, errors)
    }).map_err(|_| "PANIC".to_owned())
}

pub fn run() -> i32 {
    let mut rep = Report::new("scopes", "3 nested module levels x `T` defined at every subset of them x a referencing field at each level x 11 spellings x 2 file orders; the same through an alias with attributes and through chains of two aliases in different modules; wrong-kind targets; members named like their type (3 programs); a module with the scoped name of a definition is rejected or leaves the definition retrievable (3 programs x 2 orders); chains of three attributed aliases used at every link in 6 field orders x 3 declaration orders x before/after (attributes carried per use); retrieval by scoped name");
    let spellings = ["T", "A::T", "B::T", "C::T", "A::B::T", "B::C::T", "A::B::C::T", "::A::T", "::A::B::T", "::T", "::B::T"];
    for present in 0..8u32 {
        let defined: Vec<String> = (0..3).filter(|l| present & (1 << l) != 0).map(|l| format!("{}::T", LEVELS[l])).collect();
        for user_level in 0..3usize {
            for sp in spellings {
                for via_alias in if std::env::var("VERIF_BOUNDED_DEEP").is_ok() { vec![None, Some(0usize), Some(1usize), Some(2usize)] } else { vec![None, Some(0usize), Some(2usize)] } {
                    // the alias (when used) is defined at level `al`; the field then refers to the alias by its global name
                    let (field_ty, resolve_scope) = match via_alias { None => (sp.to_owned(), LEVELS[user_level]), Some(al) => (format!("::{}::Al", LEVELS[al]), LEVELS[al]) };
                    let want = resolve(&defined, resolve_scope, sp);
                    for order in 0..2 {
                        let mut files: Vec<String> = vec![];
                        for l in 0..3usize {
                            let mut body = format!("module {}\n", LEVELS[l]);
                            if present & (1 << l) != 0 { body.push_str("struct T {}\n"); }
                            if via_alias == Some(l) { body.push_str(&format!("typealias Al = [x::carried] {sp}\n")); }
                            if l == user_level { body.push_str(&format!("struct User {{ f: {field_ty} }}\n")); }
                            files.push(body);
                        }
                        if order == 1 { files.reverse(); }
                        let label = format!("T at {:?}; User in {}; f: {}{}; order {}", defined, LEVELS[user_level], sp, match via_alias { Some(al) => format!(" through alias in {}", LEVELS[al]), None => String::new() }, order);
                        rep.case(true, || label.clone());
                        match compile(&files) {
                            Err(m) => rep.counterexample(&label, "a verdict", &m),
                            Ok((state, errors)) => {
                                match &want {
                                    None => if errors == 0 { rep.counterexample(&label, "an error: the reference designates nothing", "accepted"); },
                                    Some(w) => {
                                        if errors > 0 { rep.counterexample(&label, &format!("bound to {w}"), "rejected with an error"); continue; }
                                        let user = format!("{}::User::f", LEVELS[user_level]);
                                        match state.ast.find_element::<Field>(&user) {
                                            Err(_) => rep.counterexample(&label, &format!("field {user} retrievable by its scoped name"), "not found"),
                                            Ok(f) => {
                                                let got = match f.data_type().concrete_type() { Types::Struct(s) => s.parser_scoped_identifier(), other => format!("{other:?}").chars().take(40).collect() };
                                                if &got != w { rep.counterexample(&label, &format!("bound to {w}"), &format!("bound to {got}")); }
                                                else if via_alias.is_some() {
                                                    let carried = f.data_type().attributes().iter().any(|a| a.kind.directive() == "x::carried");
                                                    if !carried { rep.counterexample(&label, "the alias's type attribute [x::carried] carried along", "attribute missing"); }
                                                }
                                            }
                                        }
                                    }
                                }
                            }
                        }
                    }
                }
            }
        }
    }
    // ---- alias CHAINS: every link is resolved in the scope of the alias that wrote it ---------------------------
    for present in 0..8u32 {
        let defined: Vec<String> = (0..3).filter(|l| present & (1 << l) != 0).map(|l| format!("{}::T", LEVELS[l])).collect();
        for (l1, l2) in [(0usize, 2usize), (2, 0), (1, 1), (0, 1)] {
            for sp in spellings {
                let want = resolve(&defined, LEVELS[l2], sp);
                for order in 0..2 {
                    let mut files: Vec<String> = vec![];
                    for l in 0..3usize {
                        let mut body = format!("module {}\n", LEVELS[l]);
                        if present & (1 << l) != 0 { body.push_str("struct T {}\n"); }
                        if l == l1 { body.push_str(&format!("typealias Al1 = [x::first] ::{}::Al2\n", LEVELS[l2])); }
                        if l == l2 { body.push_str(&format!("typealias Al2 = [x::second] {sp}\n")); }
                        if l == 1 { body.push_str(&format!("struct User {{ f: ::{}::Al1 }}\n", LEVELS[l1])); }
                        files.push(body);
                    }
                    if order == 1 { files.reverse(); }
                    let label = format!("T at {:?}; User.f: Al1 (in {}) = Al2 (in {}) = {}; order {}", defined, LEVELS[l1], LEVELS[l2], sp, order);
                    rep.case(true, || label.clone());
                    match compile(&files) {
                        Err(m) => rep.counterexample(&label, "a verdict", &m),
                        Ok((state, errors)) => match &want {
                            None => if errors == 0 { rep.counterexample(&label, "an error: the chain designates nothing", "accepted"); },
                            Some(w) => {
                                if errors > 0 { rep.counterexample(&label, &format!("bound to {w}"), "rejected with an error"); continue; }
                                match state.ast.find_element::<Field>("A::B::User::f") {
                                    Err(_) => rep.counterexample(&label, "field retrievable", "not found"),
                                    Ok(f) => {
                                        let got = match f.data_type().concrete_type() { Types::Struct(s) => s.parser_scoped_identifier(), other => format!("{other:?}").chars().take(40).collect() };
                                        let attrs: Vec<String> = f.data_type().attributes().iter().map(|a| a.kind.directive().to_owned()).collect();
                                        if &got != w { rep.counterexample(&label, &format!("bound to {w}"), &format!("bound to {got}")); }
                                        else if !(attrs.contains(&"x::first".to_owned()) && attrs.contains(&"x::second".to_owned())) { rep.counterexample(&label, "the type attributes of BOTH aliases carried along", &format!("{attrs:?}")); }
                                    }
                                }
                            }
                        },
                    }
                }
            }
        }
    }
    // ---- wrong kind: never a silent binding to something else ---------------------------------------------
    for (name, files, what) in [
        ("an interface where a field type is needed (a struct of that name exists further out)", vec!["module A\nstruct T {}\n", "module A::B\ninterface T {}\nstruct User { f: T }\n"], "an error (A::B::T is not a type usable here), not a binding to A::T"),
        ("a struct as a base interface", vec!["module A\ninterface T {}\n", "module A::B\nstruct T {}\ninterface I : T {}\n"], "an error (A::B::T is not an interface), not a binding to A::T"),
        ("a struct as an enum's underlying type", vec!["module A\nstruct int99 {}\nenum E : int99 { X }\n"], "an error"),
    ] {
        rep.case(true, || name.to_owned());
        let fs: Vec<String> = files.iter().map(|s| s.to_string()).collect();
        match compile(&fs) {
            Err(m) => rep.counterexample(name, what, &m),
            Ok((_, errors)) => if errors == 0 { rep.counterexample(&format!("{name}: {files:?}"), what, "accepted"); },
        }
    }
    // ---- aliases of EVERY kind of type are transparent: the field binds to the alias's final target, whatever its kind ------
    {
        let files = vec!["module A::B\nstruct S {}\nenum E { X }\ncustom C\ntypealias AS = S\ntypealias AE = E\ntypealias AC = C\ntypealias AP = int32\ntypealias AQ = Sequence<S>\ntypealias AD = Dictionary<int32, S>\ntypealias AR = Result<string, S>\ntypealias AA = AR\ntypealias AAA = AA\nstruct Holder { s: AS, e: AE, c: AC, p: AP, q: AQ, d: AD, r: AR, a: AA, aa: AAA, n: Sequence<AR>, o: AS? }\n".to_owned()];
        rep.case(true, || "aliases of every kind".to_owned());
        match compile(&files) {
            Err(m) => rep.counterexample("aliases of every kind", "an AST", &m),
            Ok((state, errors)) => {
                if errors > 0 { rep.counterexample(&files[0], "accepted: every alias designates a type", "rejected with an error"); }
                else {
                    for (f, want) in [("s", "Struct"), ("e", "Enum"), ("c", "CustomType"), ("p", "Primitive"), ("q", "Sequence"), ("d", "Dictionary"), ("r", "ResultType"), ("a", "ResultType"), ("aa", "ResultType"), ("n", "Sequence"), ("o", "Struct")] {
                        match state.ast.find_element::<Field>(&format!("A::B::Holder::{f}")) {
                            Err(_) => rep.counterexample(&files[0], &format!("field {f} retrievable"), "not found"),
                            Ok(fld) => {
                                let got = match fld.data_type().concrete_type() { Types::Struct(_) => "Struct", Types::Enum(_) => "Enum", Types::CustomType(_) => "CustomType", Types::Primitive(_) => "Primitive", Types::Sequence(_) => "Sequence", Types::Dictionary(_) => "Dictionary", Types::ResultType(_) => "ResultType" };
                                if got != want { rep.counterexample(&files[0], &format!("Holder::{f} bound to a {want} (the alias's final target)"), got); }
                            }
                        }
                    }
                }
            }
        }
    }
    // ---- the search starts at the referencing file's MODULE -- not inside the definition that contains the reference: a member
    //      named like its type, or a module named like the enclosing definition, changes nothing
    {
        let cases: Vec<(&str, Vec<&str>, Vec<(&str, &str)>)> = vec![
            // (name, files, [(scoped name of a field / parameter, the struct it must be bound to)])
            ("a field named like its type", vec!["module M\nstruct Shape {}\nstruct Drawing { Shape: Shape, other: Shape }\n"], vec![("F M::Drawing::Shape", "M::Shape"), ("F M::Drawing::other", "M::Shape")]),
            ("an enumerator named like the type of its field", vec!["module M\nstruct Circle {}\nenum Sh { Circle(c: Circle, Circle: Circle), Other(Sh: Circle) }\n"], vec![("F M::Sh::Circle::c", "M::Circle"), ("F M::Sh::Circle::Circle", "M::Circle"), ("F M::Sh::Other::Sh", "M::Circle")]),
            ("a parameter / return member / operation named like a type", vec!["module M\nstruct Shape {}\ninterface I {\n    op(Shape: Shape) -> (r: Shape, I: Shape)\n    Shape(x: Shape)\n}\n"], vec![("P M::I::op::Shape", "M::Shape"), ("P M::I::op::r", "M::Shape"), ("P M::I::op::I", "M::Shape"), ("P M::I::Shape::x", "M::Shape")]),
        ];
        for (name, files, wants) in cases {
            rep.case(true, || name.to_owned());
            let fs: Vec<String> = files.iter().map(|x| x.to_string()).collect();
            match compile(&fs) {
                Err(m) => rep.counterexample(name, "an AST", &m),
                Ok((state, errors)) => {
                    if errors > 0 { rep.counterexample(&format!("{name}: {files:?}"), "accepted: every reference designates a struct of the module", "rejected with an error"); continue; }
                    for (who, want) in wants {
                        let got = if let Some(n) = who.strip_prefix("F ") { state.ast.find_element::<Field>(n).ok().map(|f| match f.data_type().concrete_type() { Types::Struct(x) => x.parser_scoped_identifier(), _ => "not a struct".to_owned() }) }
                                  else { state.ast.find_element::<Parameter>(&who[2..]).ok().map(|f| match f.data_type().concrete_type() { Types::Struct(x) => x.parser_scoped_identifier(), _ => "not a struct".to_owned() }) };
                        if got.as_deref() != Some(want) { rep.counterexample(&format!("{name}: {files:?}"), &format!("{who} bound to {want}"), &format!("{got:?}")); }
                    }
                }
            }
        }
        // a module and a definition cannot have the same scoped name (only one of them could be retrieved by it): rejected, in
        // both file orders (until the fix recorded in known_findings.txt the later one silently replaced the earlier in the lookup table)
        for (name, files) in [
            ("a module named like a struct of the enclosing module", vec!["module M\nstruct T {}\nstruct S { t: T }\n", "module M::S\nstruct T {}\n"]),
            ("a module named like an interface of the enclosing module", vec!["module M\ninterface I { a() }\ninterface J : I {}\n", "module M::J\ninterface I { b() }\n"]),
            ("a module named like an enum / a custom type / an alias", vec!["module M\nenum E { A }\ncustom C\ntypealias A = bool\n", "module M::E\n", "module M::C\n", "module M::A\n"]),
        ] {
            for order in 0..2 {
                let mut fs: Vec<String> = files.iter().map(|x| x.to_string()).collect();
                if order == 1 { fs.reverse(); }
                let label = format!("{name}: {fs:?}");
                rep.case(true, || label.clone());
                match compile(&fs) {
                    Err(m) => rep.counterexample(&label, "a verdict", &m),
                    // either the clash is rejected, or -- if it is accepted -- every definition involved is still retrievable by its scoped name
                    Ok((state, errors)) => if errors == 0 {
                        let lost: Vec<&str> = [("M::S", state.ast.find_element::<Struct>("M::S").is_ok() || !name.contains("struct")), ("M::J", state.ast.find_element::<Interface>("M::J").is_ok() || !name.contains("interface")),
                            ("M::E", state.ast.find_element::<Enum>("M::E").is_ok() || !name.contains("enum")), ("M::C", state.ast.find_element::<CustomType>("M::C").is_ok() || !name.contains("enum")), ("M::A", state.ast.find_element::<TypeAlias>("M::A").is_ok() || !name.contains("enum"))]
                            .iter().filter(|(_, ok)| !ok).map(|(n, _)| *n).collect();
                        if !lost.is_empty() { rep.counterexample(&label, "an error (two things with one scoped name), or every definition still retrievable by its scoped name", &format!("accepted, and {lost:?} cannot be retrieved")); }
                    },
                }
            }
        }
        // ... while a module that only SHARES A PREFIX with a definition's name, or is nested deeper, is fine
        {
            let fs = vec!["module M\nstruct S { t: T }\nstruct T {}\n".to_owned(), "module M::Sx\nstruct T {}\n".to_owned(), "module N::S\nstruct T {}\n".to_owned()];
            rep.case(true, || "modules that share only a prefix with a definition".to_owned());
            match compile(&fs) {
                Err(m) => rep.counterexample("modules that share only a prefix", "an AST", &m),
                Ok((state, errors)) => {
                    let got = state.ast.find_element::<Field>("M::S::t").ok().map(|f| match f.data_type().concrete_type() { Types::Struct(x) => x.parser_scoped_identifier(), _ => "not a struct".to_owned() });
                    if errors > 0 || got.as_deref() != Some("M::T") { rep.counterexample(&format!("{fs:?}"), "accepted, M::S::t bound to M::T", &format!("errors={errors} {got:?}")); }
                }
            }
        }
    }
    // ---- alias chains with attributes at every link, used BEFORE they are defined and at every link: each use carries exactly the
    //      attributes written on the alias types it goes through (outermost first), whatever was resolved before it
    {
        let decls = ["typealias Outer = [x::outer] Mid\n", "typealias Mid = [x::mid] Inner\n", "typealias Inner = [x::inner] Sequence<int32>\n"];
        let uses = [("o", "Outer", vec!["x::outer", "x::mid", "x::inner"]), ("m", "Mid", vec!["x::mid", "x::inner"]), ("i", "Inner", vec!["x::inner"]), ("w", "[x::written] Outer", vec!["x::written", "x::outer", "x::mid", "x::inner"])];
        let orders: [[usize; 4]; 6] = [[0, 1, 2, 3], [3, 2, 1, 0], [1, 0, 3, 2], [2, 0, 1, 3], [0, 2, 1, 3], [3, 0, 2, 1]];
        for uo in orders {
            for (di, dorder) in [[0usize, 1, 2], [2, 1, 0], [1, 2, 0]].iter().enumerate() {
                for users_first in [true, false] {
                    let fields: Vec<String> = uo.iter().map(|k| format!("{}: {}", uses[*k].0, uses[*k].1)).collect();
                    let user = format!("struct U {{ {} }}\n", fields.join(", "));
                    let ds: String = dorder.iter().map(|k| decls[*k]).collect();
                    let text = if users_first { format!("module M\n{user}{ds}") } else { format!("module M\n{ds}{user}") };
                    let label = format!("alias chain attributes: fields {uo:?} declarations #{di} users_first={users_first}\n{text}");
                    rep.case(true, || label.clone());
                    match compile(&[text.clone()]) {
                        Err(m) => rep.counterexample(&label, "an AST", &m),
                        Ok((state, errors)) => {
                            if errors > 0 { rep.counterexample(&label, "accepted", "rejected with an error"); continue; }
                            for (f, _, want) in &uses {
                                let got: Option<Vec<String>> = state.ast.find_element::<Field>(&format!("M::U::{f}")).ok().map(|fl| fl.data_type().attributes().iter().map(|a| a.kind.directive().to_owned()).collect());
                                // exactly these attributes, each once (the property does not fix their order)
                                let mut want: Vec<String> = want.iter().map(|x| x.to_string()).collect();
                                want.sort();
                                let got = got.map(|mut g| { g.sort(); g });
                                if got.as_ref() != Some(&want) { rep.counterexample(&label, &format!("U::{f}'s type carries {want:?}"), &format!("{got:?}")); }
                            }
                        }
                    }
                }
            }
        }
    }
    // ---- retrieval by fully scoped name ---------------------------------------------------------------------
    {
        let files = vec!["module A::B\nstruct S { f: bool, g: S2 }\nstruct S2 {}\nenum E { X, Y(z: bool) }\ninterface I { op(p: bool) -> (r: bool, s: bool) }\ncustom C\ntypealias Al = Sequence<S>\n".to_owned()];
        rep.case(true, || "retrieval".to_owned());
        match compile(&files) {
            Err(m) => rep.counterexample("retrieval", "an AST", &m),
            Ok((state, _)) => {
                let mut missing = vec![];
                macro_rules! need { ($t:ty, $n:expr) => { if state.ast.find_element::<$t>($n).is_err() { missing.push($n); } }; }
                need!(Struct, "A::B::S"); need!(Field, "A::B::S::f"); need!(Field, "A::B::S::g"); need!(Struct, "A::B::S2"); need!(Enum, "A::B::E");
                need!(Enumerator, "A::B::E::X"); need!(Enumerator, "A::B::E::Y"); need!(Field, "A::B::E::Y::z"); need!(Interface, "A::B::I"); need!(Operation, "A::B::I::op");
                need!(Parameter, "A::B::I::op::p"); need!(Parameter, "A::B::I::op::r"); need!(CustomType, "A::B::C"); need!(TypeAlias, "A::B::Al");
                if !missing.is_empty() { rep.counterexample(&files[0], "every definition, field, enumerator, operation and parameter retrievable by its fully scoped name", &format!("not found: {missing:?}")); }
            }
        }
    }
    rep.finish()
}
