//! C12 (bounded stand-in): the two output targets against an append-only-log model.
//!
//! Every script of <= 5 operations over {write_byte, write 3 bytes, reserve 2, reserve 0, fill the FIRST outstanding reservation
//! with 1 byte, fill the LAST one with 2 bytes, fill the first with 3 bytes (more than any reservation holds)}, run on
//!   * `VecOutputTarget` over an empty vector and over a vector that already holds 3 bytes (buffer/vec.rs is `unsafe` over
//!     MaybeUninit / set_len: outside Verus, Kani only in the thorough tier),
//!   * `SliceOutputTarget` over 6 bytes (so that writes and reservations hit "exactly full" and "one too many").
//! After every operation: Ok/Err as the model says (it fits / it does not), `remaining()`; at the end the bytes: everything
//! written is where the log says, reserved-but-unwritten bytes are not compared, nothing beyond the log changed, earlier
//! content untouched. A refused operation changes nothing -- also not the reservation.
use crate::Report;
use slice_codec::buffer::slice::SliceOutputTarget;
use slice_codec::buffer::vec::VecOutputTarget;
use slice_codec::buffer::{OutputTarget, Reservation};

#[derive(Clone, Copy, Debug, PartialEq)]
enum Op { W1, W3, R2, R0, F1First, F2Last, F3First }
const OPS: [Op; 7] = [Op::W1, Op::W3, Op::R2, Op::R0, Op::F1First, Op::F2Last, Op::F3First];

/// model: the log (None = reserved, not yet written), outstanding reservations (start, end) in the order made
struct Model { log: Vec<Option<u8>>, res: Vec<(usize, usize)>, cap: Option<usize> }

fn run_script<T: OutputTarget>(target: &mut T, model: &mut Model, script: &[Op]) -> Result<(), String> {
    let mut live: Vec<Reservation> = vec![];
    for (step, op) in script.iter().enumerate() {
        let x = 0x40 + step as u8 * 4;
        let fits = |m: &Model, n: usize| m.cap.map_or(true, |c| m.log.len() + n <= c);
        let (got_ok, want_ok) = match op {
            Op::W1 => { let w = fits(model, 1); let g = target.write_byte(x).is_ok(); if w { model.log.push(Some(x)); } (g, w) }
            Op::W3 => { let w = fits(model, 3); let g = target.write_bytes_exact(&[x, x + 1, x + 2]).is_ok(); if w { model.log.extend([Some(x), Some(x + 1), Some(x + 2)]); } (g, w) }
            Op::R2 | Op::R0 => {
                let n = if *op == Op::R2 { 2 } else { 0 };
                let w = fits(model, n);
                let r = target.reserve_space(n);
                let g = r.is_ok();
                if let Ok(r) = r { live.push(r); }
                if w { model.res.push((model.log.len(), model.log.len() + n)); for _ in 0..n { model.log.push(None); } }
                if g != w && g { live.pop(); }
                (g, w)
            }
            Op::F1First | Op::F2Last | Op::F3First => {
                if model.res.is_empty() || live.len() != model.res.len() { continue; }
                let (idx, bytes): (usize, Vec<u8>) = match op { Op::F1First => (0, vec![x]), Op::F2Last => (model.res.len() - 1, vec![x, x + 1]), _ => (0, vec![x, x + 1, x + 2]) };
                let (s, e) = model.res[idx];
                let w = bytes.len() <= e - s;
                let g = target.write_bytes_into_reserved_exact(&mut live[idx], &bytes).is_ok();
                if w { for (i, b) in bytes.iter().enumerate() { model.log[s + i] = Some(*b); } model.res[idx].0 += bytes.len(); }
                (g, w)
            }
        };
        if got_ok != want_ok { return Err(format!("step {step} {op:?}: {} but the model says it {}", if got_ok { "Ok" } else { "Err" }, if want_ok { "fits" } else { "does not fit" })); }
        if let Some(c) = model.cap { if target.remaining() != c - model.log.len() { return Err(format!("step {step} {op:?}: remaining() = {}, the log has {} of {c} bytes", target.remaining(), model.log.len())); } }
    }
    Ok(())
}

fn compare(bytes: &[u8], model: &Model, before: &[u8], what: &str) -> Result<(), String> {
    let want_len = before.len() + model.log.len();
    if bytes.len() < want_len { return Err(format!("{what}: {} bytes, the log has {want_len}: {bytes:02x?}", bytes.len())); }
    if bytes[..before.len()] != *before { return Err(format!("{what}: the bytes that were there before changed: {bytes:02x?}")); }
    for (i, m) in model.log.iter().enumerate() { if let Some(b) = m { if bytes[before.len() + i] != *b { return Err(format!("{what}: byte {i} of the log is {:02x}, written was {b:02x}: {bytes:02x?} vs {:?}", bytes[before.len() + i], model.log)); } } }
    Ok(())
}

pub fn run() -> i32 {
    let mut rep = Report::new("targets", "every script of <= 5 operations over 7 (write 1 / 3 bytes, reserve 2 / 0, fill the first / last outstanding reservation with 1 / 2 / 3 bytes) x VecOutputTarget over an empty and a 3-byte vector, SliceOutputTarget over 6 bytes; Ok/Err and remaining() after every step and the final bytes against an append-only-log model");
    let mut scripts: Vec<Vec<Op>> = vec![vec![]];
    let mut frontier: Vec<Vec<Op>> = vec![vec![]];
    for _ in 0..5 { let mut next = vec![]; for s in &frontier { for op in OPS { let mut t = s.clone(); t.push(op); next.push(t); } } scripts.extend(next.iter().cloned()); frontier = next; }
    for script in &scripts {
        for initial in [vec![], vec![1u8, 2, 3]] {
            let label = format!("VecOutputTarget over {initial:?}: {script:?}");
            rep.case(script.len() >= 2, || label.clone());
            let (sc, init) = (script.clone(), initial.clone());
            let out = std::panic::catch_unwind(move || {
                let mut v = init.clone();
                let mut model = Model { log: vec![], res: vec![], cap: None };
                let r = { let mut t = VecOutputTarget::from(&mut v); run_script(&mut t, &mut model, &sc) };
                r.and_then(|_| { if v.len() != init.len() + model.log.len() { Err(format!("the vector holds {} bytes, the log says {}: {v:02x?}", v.len(), init.len() + model.log.len())) } else { compare(&v, &model, &init, "vector") } })
            });
            match out { Err(_) => rep.counterexample(&label, "no panic", "PANIC"), Ok(Err(m)) => rep.counterexample(&label, "the append-only log", &m), Ok(Ok(())) => {} }
        }
        let label = format!("SliceOutputTarget over 6 bytes: {script:?}");
        rep.case(script.len() >= 2, || label.clone());
        let sc = script.clone();
        let out = std::panic::catch_unwind(move || {
            let mut buf = [0xEEu8; 6];
            let mut model = Model { log: vec![], res: vec![], cap: Some(6) };
            let r = { let mut t = SliceOutputTarget::from(&mut buf[..]); run_script(&mut t, &mut model, &sc) };
            r.and_then(|_| compare(&buf, &model, &[], "buffer")).and_then(|_| if buf[model.log.len()..].iter().all(|b| *b == 0xEE) { Ok(()) } else { Err(format!("bytes beyond the log changed: {buf:02x?}")) })
        });
        match out { Err(_) => rep.counterexample(&label, "no panic", "PANIC"), Ok(Err(m)) => rep.counterexample(&label, "the append-only log", &m), Ok(Ok(())) => {} }
    }
    rep.finish()
}
