//! C18 (bounded stand-in): a failing generator is reported, never fatal, and never half-trusted.
//!
//! The REAL `slicec` binary (built from the tree under test; path in $VERIF_SLICEC_BIN) is run on a small Slice file with
//! lists of generator programs (shell scripts in a scratch directory): well-behaved ones and every failure mode the
//! property names -- cannot be started (missing / not executable), exits non-zero, killed by a signal, writes to stderr,
//! closes its stdin early while the request is larger than a pipe buffer, replies with nothing, with every proper PREFIX of a valid reply, with undecodable bytes -- in every position of the list.
//! Oracle, from the property's sentence:
//!  * the compiler neither crashes nor hangs (30 s), exits non-zero exactly when some generator failed;
//!  * each failed generator is named by an error on the diagnostic stream;
//!  * the other generators still run (marker file) and are honoured (their files are written);
//!  * all generators receive the identical request followed by their own arguments;
//!  * files are written only from a successfully (completely) decoded reply -- not even the first file of a reply that is
//!    truncated later --, relative paths land below the output directory, and a file whose content is already identical is
//!    left untouched (same modification time), one whose content differs is replaced.
use crate::Report;
use std::fs;
use std::os::unix::fs::PermissionsExt;
use std::path::{Path, PathBuf};
use std::process::{Command, Stdio};
use std::time::{Duration, Instant, SystemTime};

fn enc_size(n: usize, out: &mut Vec<u8>) {
    // variable-width unsigned integer (wire format: value << 2 | width code)
    if n < 64 { out.push((n << 2) as u8); } else if n < 16384 { out.extend_from_slice(&(((n << 2) | 1) as u16).to_le_bytes()); } else { out.extend_from_slice(&(((n << 2) | 2) as u32).to_le_bytes()); }
}
fn enc_str(s: &str, out: &mut Vec<u8>) {
    enc_size(s.len(), out);
    out.extend_from_slice(s.as_bytes());
}
/// a generator's reply: sequence of GeneratedFile {path, contents, end of tagged fields}, then a sequence of diagnostics
fn enc_reply(files: &[(String, String)]) -> Vec<u8> {
    let mut o = vec![];
    enc_size(files.len(), &mut o);
    for (p, c) in files {
        enc_str(p, &mut o);
        enc_str(c, &mut o);
        o.push(0xFC); // tag end marker (varint -1)
    }
    enc_size(0, &mut o); // no diagnostics
    o
}
fn enc_args(args: &[(&str, &str)]) -> Vec<u8> {
    let mut o = vec![];
    enc_size(args.len(), &mut o);
    for (k, v) in args { enc_str(k, &mut o); enc_str(v, &mut o); }
    o
}

#[derive(Clone, Debug)]
enum Gen {
    /// reads all of stdin into req.NAME, leaves ran.NAME, replies with these files
    Ok { name: String, files: Vec<(String, String)>, args: Vec<(&'static str, &'static str)> },
    /// a failure mode; `files` is what its (never to be trusted) reply announces
    Bad { name: String, mode: &'static str, files: Vec<(String, String)>, cut: usize },
}
impl Gen {
    fn name(&self) -> &str { match self { Gen::Ok { name, .. } | Gen::Bad { name, .. } => name } }
}

fn write_script(dir: &Path, g: &Gen) -> String {
    let name = g.name();
    let path = dir.join(format!("gen_{name}.sh"));
    let rel = format!("./gen_{name}.sh");
    let (body, exec) = match g {
        Gen::Ok { files, .. } => { fs::write(dir.join(format!("reply.{name}")), enc_reply(files)).unwrap(); (format!("cat > req.{name}\ntouch ran.{name}\ncat reply.{name}\n"), true) }
        Gen::Bad { mode, files, cut, .. } => {
            let reply = enc_reply(files);
            fs::write(dir.join(format!("reply.{name}")), &reply).unwrap();
            match *mode {
                "missing" => return format!("./no_such_generator_{name}"),
                "not-executable" => ("cat > /dev/null\n".to_owned(), false),
                "exit-3" => (format!("cat > /dev/null\ncat reply.{name}\nexit 3\n"), true),
                "killed" => ("cat > /dev/null\nkill -9 $$\n".to_owned(), true),
                "killed-after-reply" => (format!("cat > /dev/null\ncat reply.{name}\nkill -9 $$\n"), true),
                "stderr" => (format!("cat > /dev/null\necho 'something went wrong' >&2\ncat reply.{name}\n"), true),
                // writing to stderr is a failure whatever is written: here only white space
                "stderr-blank" => (format!("cat > /dev/null\nprintf ' \\t\\n' >&2\ncat reply.{name}\n"), true),
                "empty-reply" => ("cat > /dev/null\n".to_owned(), true),
                "truncated" => (format!("cat > /dev/null\nhead -c {cut} reply.{name}\n"), true),
                "garbage" => ("cat > /dev/null\nprintf '\\377\\376\\375\\374\\373'\n".to_owned(), true),
                "trailing-garbage-count" => ("cat > /dev/null\nprintf '\\010'\n".to_owned(), true), // announces 2 files, delivers none
                _ => unreachable!(),
            }
        }
    };
    fs::write(&path, format!("#!/bin/sh\n{body}")).unwrap();
    fs::set_permissions(&path, fs::Permissions::from_mode(if exec { 0o755 } else { 0o644 })).unwrap();
    rel
}

struct Outcome { code: Option<i32>, stderr: String, timed_out: bool }

fn run_slicec(bin: &str, dir: &Path, args: &[String]) -> Outcome {
    let mut child = Command::new(bin).args(args).current_dir(dir).stdin(Stdio::null()).stdout(Stdio::piped()).stderr(Stdio::piped()).spawn().expect("cannot start slicec");
    let start = Instant::now();
    loop {
        match child.try_wait() {
            Ok(Some(_)) => break,
            Ok(None) if start.elapsed() > Duration::from_secs(30) => { let _ = child.kill(); let _ = child.wait(); return Outcome { code: None, stderr: String::new(), timed_out: true }; }
            Ok(None) => std::thread::sleep(Duration::from_millis(5)),
            Err(_) => break,
        }
    }
    let out = child.wait_with_output().expect("wait");
    Outcome { code: out.status.code(), stderr: String::from_utf8_lossy(&out.stderr).to_string(), timed_out: false }
}

pub fn run() -> i32 {
    let mut rep = Report::new("generators", "the real slicec binary x lists of <= 3 generator scripts: 11 failure modes (missing, killed after a complete reply, not executable, exit 3, killed by SIGKILL, stderr output, white space only on stderr, empty reply, undecodable bytes, a count with nothing behind it, EVERY proper prefix of a valid two-file reply) in every position among well-behaved generators with different arguments (unsorted, a repeated key, an empty value: received as written, in order); pairs of failing generators in one list (each named by exactly one error); identical / different / absent pre-existing output files; with and without an output directory");
    let Ok(bin) = std::env::var("VERIF_SLICEC_BIN") else { eprintln!("VERIF_SLICEC_BIN not set"); return 2; };
    let base = std::env::var("VERIF_SCRATCH").map(PathBuf::from).unwrap_or_else(|_| std::env::temp_dir());
    let root = base.join(format!("slicec_generators_{}", std::process::id()));
    let _ = fs::remove_dir_all(&root);
    fs::create_dir_all(&root).unwrap();
    let two = vec![("a/first.txt".to_owned(), "FIRST\n".to_owned()), ("second.txt".to_owned(), "SECOND é\n".to_owned())];
    let full = enc_reply(&two);
    let mut bads: Vec<Gen> = vec![];
    for mode in ["missing", "not-executable", "exit-3", "killed", "killed-after-reply", "stderr", "stderr-blank", "empty-reply", "garbage", "trailing-garbage-count"] {
        bads.push(Gen::Bad { name: format!("bad_{}", mode.replace('-', "_")), mode, files: vec![("from_bad.txt".to_owned(), "MUST NOT APPEAR\n".to_owned())], cut: 0 });
    }
    for cut in 0..full.len() {
        bads.push(Gen::Bad { name: format!("cut{cut}"), mode: "truncated", files: two.clone(), cut });
    }
    let good1 = Gen::Ok { name: "good1".into(), files: vec![("g1/out.txt".to_owned(), "ONE\n".to_owned())], args: vec![("out", "x"), ("lang", "cs"), ("v", "1"), ("include", "a"), ("include", "b"), ("include", "a"), ("debug", "")] };   // not sorted, a repeated key: the pairs arrive as written, in order
    let good2 = Gen::Ok { name: "good2".into(), files: vec![("g2.txt".to_owned(), "TWO\n".to_owned()), ("same.txt".to_owned(), "SAME\n".to_owned()), ("differs.txt".to_owned(), "NEW\n".to_owned())], args: vec![] };
    let mut scenarios: Vec<(Vec<Gen>, bool)> = vec![(vec![good1.clone(), good2.clone()], true), (vec![good2.clone()], false), (vec![good1.clone()], true)];
    for (k, b) in bads.iter().enumerate() {
        // every position; fewer combinations for the many truncation points
        if matches!(b, Gen::Bad { mode: "truncated", .. }) {
            match k % 3 { 0 => scenarios.push((vec![b.clone(), good2.clone()], true)), 1 => scenarios.push((vec![good1.clone(), b.clone()], k % 2 == 0)), _ => scenarios.push((vec![good1.clone(), b.clone(), good2.clone()], true)) }
        } else {
            scenarios.push((vec![b.clone(), good1.clone(), good2.clone()], true));
            scenarios.push((vec![good1.clone(), b.clone(), good2.clone()], false));
            scenarios.push((vec![good1.clone(), good2.clone(), b.clone()], true));
            scenarios.push((vec![b.clone()], true));
        }
    }
    // TWO failing generators in one list (each error must name its own generator), around and between well-behaved ones
    {
        let by = |m: &str| bads.iter().find(|b| matches!(b, Gen::Bad { mode, .. } if *mode == m)).unwrap().clone();
        for (x, y) in [("missing", "exit-3"), ("exit-3", "missing"), ("not-executable", "stderr"), ("stderr", "killed"), ("missing", "garbage"), ("empty-reply", "exit-3"), ("killed-after-reply", "missing")] {
            scenarios.push((vec![by(x), by(y), good1.clone()], true));
            scenarios.push((vec![by(x), good2.clone(), by(y)], false));
            scenarios.push((vec![good1.clone(), by(x), by(y), good2.clone()], true));
        }
    }
    for (si, (gens, with_outdir)) in scenarios.iter().enumerate() {
        let dir = root.join(format!("s{si}"));
        fs::create_dir_all(&dir).unwrap();
        fs::write(dir.join("in.slice"), "module M\nstruct S { a: bool, b: string }\ninterface I { op(x: int32) -> S }\n").unwrap();
        let outdir = if *with_outdir { dir.join("out") } else { dir.clone() };
        fs::create_dir_all(outdir.join("a")).unwrap();
        fs::create_dir_all(outdir.join("g1")).unwrap();
        // pre-existing files: one identical to what good2 will produce, one that differs
        let old = SystemTime::UNIX_EPOCH + Duration::from_secs(1_000_000_000);
        for (f, c) in [("same.txt", "SAME\n"), ("differs.txt", "OLD\n")] {
            fs::write(outdir.join(f), c).unwrap();
            let fh = fs::OpenOptions::new().write(true).open(outdir.join(f)).unwrap();
            fh.set_modified(old).unwrap();
        }
        let mut args: Vec<String> = vec!["in.slice".into(), "--disable-color".into()];
        if *with_outdir { args.push("-O".into()); args.push("out".into()); }
        let mut rels = vec![];
        for g in gens {
            let rel = write_script(&dir, g);
            let spec = match g { Gen::Ok { args: a, .. } if !a.is_empty() => format!("{rel},{}", a.iter().map(|(k, v)| format!("{k}={v}")).collect::<Vec<_>>().join(",")), _ => rel.clone() };
            args.push("-G".into());
            args.push(spec);
            rels.push(rel);
        }
        let label = format!("generators {:?}{}", gens.iter().map(|g| match g { Gen::Ok { name, .. } => name.clone(), Gen::Bad { name, mode, cut, .. } => format!("{name}({mode}{})", if *mode == "truncated" { format!(" after {cut} of {} bytes", full.len()) } else { String::new() }) }).collect::<Vec<_>>(), if *with_outdir { " -O out" } else { "" });
        rep.case(gens.iter().any(|g| matches!(g, Gen::Bad { .. })), || label.clone());
        let o = run_slicec(&bin, &dir, &args);
        if o.timed_out { rep.counterexample(&label, "the compiler finishes", "no exit within 30 s (hang)"); continue; }
        let any_bad = gens.iter().any(|g| matches!(g, Gen::Bad { .. }));
        match o.code {
            None => { rep.counterexample(&label, "an exit status", &format!("killed by a signal; stderr: {}", o.stderr.chars().take(300).collect::<String>())); continue; }
            Some(101) => { rep.counterexample(&label, "an error diagnostic, not a crash", &format!("PANIC (exit 101): {}", o.stderr.chars().take(300).collect::<String>())); continue; }
            Some(c) => if (c != 0) != any_bad { rep.counterexample(&label, if any_bad { "a non-zero exit status: a generator failed" } else { "exit status 0: every generator succeeded" }, &format!("exit {c}; stderr: {}", o.stderr.chars().take(300).collect::<String>())); continue; },
        }
        let mut problem: Option<(String, String)> = None;
        let mut reqs: Vec<(Vec<u8>, Vec<u8>)> = vec![];
        for (g, rel) in gens.iter().zip(&rels) {
            match g {
                Gen::Bad { name, files, .. } => {
                    let n_named = o.stderr.lines().filter(|l| l.starts_with("error") && l.contains(&format!("'{rel}'"))).count();
                    if n_named != 1 { problem = Some((format!("exactly one error naming the failed generator {rel}"), format!("{n_named} such line(s); stderr: {:?}", o.stderr.chars().take(500).collect::<String>()))); break; }
                    for (p, _) in files {
                        // good generators never announce these names, so their presence can only come from the failed reply
                        if outdir.join(p).exists() { problem = Some((format!("nothing written from the reply of the failed generator {name}"), format!("{} exists", outdir.join(p).display()))); break; }
                    }
                }
                Gen::Ok { name, files, args: a } => {
                    if !dir.join(format!("ran.{name}")).exists() { problem = Some((format!("generator {name} still runs"), "it was not started (no marker)".into())); break; }
                    for (p, c) in files {
                        match fs::read_to_string(outdir.join(p)) { Ok(got) if &got == c => {}, other => { problem = Some((format!("{} written below the output directory with the generator's content", p), format!("{other:?}"))); break; } }
                    }
                    if o.stderr.lines().any(|l| l.starts_with("error") && l.contains(&format!("'{rel}'"))) { problem = Some((format!("no error about the well-behaved generator {name}"), o.stderr.chars().take(300).collect())); break; }
                    reqs.push((fs::read(dir.join(format!("req.{name}"))).unwrap_or_default(), enc_args(a)));
                    if name == "good2" {
                        let m_same = fs::metadata(outdir.join("same.txt")).and_then(|m| m.modified()).ok();
                        let m_diff = fs::metadata(outdir.join("differs.txt")).and_then(|m| m.modified()).ok();
                        if m_same != Some(old) { problem = Some(("a file whose content is already identical is left untouched".into(), format!("same.txt was rewritten (mtime {m_same:?})"))); break; }
                        if m_diff == Some(old) { problem = Some(("a file whose content differs is replaced".into(), "differs.txt was not written".into())); break; }
                    }
                }
            }
            if problem.is_some() { break; }
        }
        if problem.is_none() {
            // identical request, then each generator's own arguments
            let mut common: Option<Vec<u8>> = None;
            for (req, a) in &reqs {
                if !req.ends_with(a) || req.len() <= a.len() { problem = Some(("each generator's stdin ends with its own encoded arguments".into(), format!("{} bytes received, arguments {:02x?}", req.len(), a))); break; }
                let head = req[..req.len() - a.len()].to_vec();
                match &common { None => common = Some(head), Some(c) => if *c != head { problem = Some(("all generators receive the identical request".into(), format!("requests of {} and {} bytes differ", c.len(), head.len()))); break; } }
            }
        }
        if let Some((want, got)) = problem { rep.counterexample(&label, &want, &got); }
    }
    // ---- a generator that closes its stdin early, with a request larger than a pipe buffer: either outcome (the write fails -> an error
    //      naming it and nothing of its reply on disk; or the reply is honoured) is consistent with the property; a crash, a hang, or an
    //      inconsistent mixture is not. The well-behaved generator next to it is honoured either way.
    for position in 0..2usize {
        let dir = root.join(format!("early{position}"));
        fs::create_dir_all(dir.join("out/g1")).unwrap();
        let mut big = String::from("module M\n");
        for i in 0..4000 { big.push_str(&format!("struct VeryLongStructName{i} {{ fieldNumberOne: string, fieldNumberTwo: Sequence<int32> }}\n")); }
        fs::write(dir.join("in.slice"), big).unwrap();
        let early_files = vec![("early.txt".to_owned(), "EARLY\n".to_owned())];
        fs::write(dir.join("reply.early"), enc_reply(&early_files)).unwrap();
        let script = dir.join("gen_early.sh");
        fs::write(&script, "#!/bin/sh\nexec 0<&-\nsleep 1\ncat reply.early\n").unwrap();
        fs::set_permissions(&script, fs::Permissions::from_mode(0o755)).unwrap();
        let good = write_script(&dir, &good1);
        let mut args: Vec<String> = vec!["in.slice".into(), "--disable-color".into(), "-O".into(), "out".into()];
        // control: good1 alone on the same input -- what it must receive whatever its neighbours do
        let control_args: Vec<String> = vec!["in.slice".into(), "--disable-color".into(), "-O".into(), "out".into(), "-G".into(), format!("{good},lang=cs,v=1")];
        let _ = run_slicec(&bin, &dir, &control_args);
        let control_req = fs::read(dir.join("req.good1")).unwrap_or_default();
        let _ = fs::remove_file(dir.join("req.good1"));
        let _ = fs::remove_file(dir.join("ran.good1"));
        let _ = fs::remove_file(dir.join("out/g1/out.txt"));
        let order: Vec<String> = if position == 0 { vec!["./gen_early.sh,secret=yes".into(), format!("{good},lang=cs,v=1")] } else { vec![format!("{good},lang=cs,v=1"), "./gen_early.sh,secret=yes".into()] };
        for g in order { args.push("-G".into()); args.push(g); }
        let label = format!("a generator that closes stdin early (position {position}) next to good1, request > 64 KiB");
        rep.case(true, || label.clone());
        let o = run_slicec(&bin, &dir, &args);
        if o.timed_out { rep.counterexample(&label, "the compiler finishes", "no exit within 30 s (hang)"); continue; }
        let named = o.stderr.lines().any(|l| l.starts_with("error") && l.contains("'./gen_early.sh'"));
        let written = dir.join("out/early.txt").exists();
        match o.code {
            None => rep.counterexample(&label, "an exit status", "killed by a signal"),
            Some(101) => rep.counterexample(&label, "an error diagnostic, not a crash", &format!("PANIC: {}", o.stderr.chars().take(300).collect::<String>())),
            Some(c) => {
                if named == written { rep.counterexample(&label, "either an error naming the generator and nothing written from it, or its reply honoured", &format!("error reported: {named}, early.txt written: {written}")); }
                else if (c != 0) != named { rep.counterexample(&label, "a non-zero exit status exactly when the generator is reported as failed", &format!("exit {c}, error reported: {named}")); }
                else if !dir.join("ran.good1").exists() || fs::read_to_string(dir.join("out/g1/out.txt")).ok().as_deref() != Some("ONE\n") { rep.counterexample(&label, "the well-behaved generator still runs and is honoured", "its marker or file is missing"); }
                else {
                    let req = fs::read(dir.join("req.good1")).unwrap_or_default();
                    if control_req.is_empty() || req != control_req { rep.counterexample(&label, "good1 receives the identical request followed by ITS OWN arguments (what it receives when it runs alone)", &format!("{} bytes, alone it receives {} bytes", req.len(), control_req.len())); }
                }
            }
        }
    }
    let _ = fs::remove_dir_all(&root);
    rep.finish()
}
