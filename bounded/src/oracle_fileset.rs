//! C17 (bounded stand-in): the compiled file set, against an oracle written from the property.
//!
//! A scratch directory tree is created (under $VERIF_SCRATCH, default the system temp dir) and the real
//! `slicec::utils::file_util::resolve_files_from` is run, from inside it, on EVERY source list of length
//! <= 3 and reference list of length <= 2 over small alphabets of spellings (same file spelled
//! differently, through `..`, through a symbolic link, missing, wrong extension, directories).
//!
//! Oracle (the property's words): sources first, in the order given, first spelling kept; then the
//! reference files (directories expanded recursively to their *.slice files) that are not already
//! present; every file once; one DuplicateFile warning per repeat within one list, none for a file
//! that is both source and reference; one I/O error per bad path; no panic.
use crate::Report;
use slicec::diagnostics::Diagnostics;
use slicec::slice_options::SliceOptions;
use std::collections::BTreeSet;
use std::fs;
use std::path::{Path, PathBuf};

fn below(dir: &Path, out: &mut Vec<PathBuf>) {
    let mut entries: Vec<PathBuf> = fs::read_dir(dir).unwrap().map(|e| e.unwrap().path()).collect();
    entries.sort();
    for p in entries {
        if p.is_dir() {
            below(&p, out);
        } else if p.extension().and_then(|e| e.to_str()) == Some("slice") {
            out.push(p);
        }
    }
}

/// (files the list stands for, as (spelling or None for directory-derived, canonical path); number of bad paths)
fn expand(list: &[&str], is_source: bool) -> (Vec<(Option<String>, PathBuf)>, usize) {
    let mut out = vec![];
    let mut bad = 0;
    for p in list {
        let pb = PathBuf::from(p);
        if !pb.exists() {
            bad += 1;
        } else if pb.is_file() {
            if pb.extension().and_then(|e| e.to_str()) == Some("slice") {
                out.push((Some(p.to_string()), pb.canonicalize().unwrap()));
            } else {
                bad += 1;
            }
        } else if is_source {
            bad += 1;
        } else {
            let mut found = vec![];
            below(&pb, &mut found);
            for f in found {
                out.push((None, f.canonicalize().unwrap()));
            }
        }
    }
    (out, bad)
}

fn lists(alpha: &[&'static str], max: usize) -> Vec<Vec<&'static str>> {
    let mut all: Vec<Vec<&'static str>> = vec![vec![]];
    let mut last: Vec<Vec<&'static str>> = vec![vec![]];
    for _ in 0..max {
        let mut next = vec![];
        for l in &last {
            for a in alpha {
                let mut n = l.clone();
                n.push(*a);
                next.push(n);
            }
        }
        all.extend(next.iter().cloned());
        last = next;
    }
    all
}

pub fn run() -> i32 {
    let mut rep = Report::new(
        "fileset",
        "every source list of length <= 3 over 8 spellings x every reference list of length <= 2 over 8 spellings (incl. a directory named `odd.slice` with a hidden file), on a scratch tree with symlinks (listed explicitly, and to a file / a directory / an already listed file INSIDE a reference directory), a nested directory and a non-Slice file",
    );
    let base = std::env::var("VERIF_SCRATCH").map(PathBuf::from).unwrap_or_else(|_| std::env::temp_dir());
    let root = base.join(format!("slicec_fileset_{}", std::process::id()));
    let _ = fs::remove_dir_all(&root);
    fs::create_dir_all(root.join("dir/sub")).unwrap();
    for f in ["a.slice", "b.slice", "c.slice", "dir/d.slice", "dir/sub/e.slice"] {
        fs::write(root.join(f), "module M\n").unwrap();
    }
    fs::write(root.join("dir/notes.txt"), "x").unwrap();
    // a DIRECTORY whose name ends in .slice (a source: an error; a reference: walked like any directory), with a hidden file inside
    fs::create_dir_all(root.join("odd.slice")).unwrap();
    fs::write(root.join("odd.slice/inner.slice"), "module M\n").unwrap();
    fs::write(root.join("odd.slice/.hidden.slice"), "module M\n").unwrap();
    // outside the tree the arguments name: reachable only through the links inside dir/
    fs::create_dir_all(root.join("elsewhere/deep")).unwrap();
    fs::write(root.join("elsewhere/far.slice"), "module M\n").unwrap();
    fs::write(root.join("elsewhere/deep/deeper.slice"), "module M\n").unwrap();
    #[cfg(unix)]
    {
        std::os::unix::fs::symlink(root.join("elsewhere/far.slice"), root.join("dir/linked_file.slice")).unwrap();
        std::os::unix::fs::symlink(root.join("elsewhere/deep"), root.join("dir/sub/linked_dir")).unwrap();
        std::os::unix::fs::symlink(root.join("b.slice"), root.join("dir/sub/alias_of_b.slice")).unwrap();
    }
    #[cfg(unix)]
    std::os::unix::fs::symlink(root.join("a.slice"), root.join("link.slice")).unwrap();
    #[cfg(not(unix))]
    fs::write(root.join("link.slice"), "module M\n").unwrap();
    std::env::set_current_dir(&root).unwrap();

    let src_alpha = ["a.slice", "./a.slice", "link.slice", "b.slice", "dir/../b.slice", "missing.slice", "dir", "odd.slice"];
    let ref_alpha = ["a.slice", "dir", "./dir/sub", "dir/d.slice", "c.slice", "dir/notes.txt", "link.slice", "odd.slice"];
    for sources in lists(&src_alpha, 3) {
        for references in lists(&ref_alpha, 2) {
            let (s_exp, s_bad) = expand(&sources, true);
            let (r_exp, r_bad) = expand(&references, false);
            // oracle
            let mut seen: Vec<PathBuf> = vec![];
            let mut exp_sources: Vec<(String, PathBuf)> = vec![];
            let mut dup_spellings: Vec<String> = vec![];
            for (sp, c) in &s_exp {
                if seen.contains(c) {
                    dup_spellings.push(sp.clone().unwrap());
                } else {
                    seen.push(c.clone());
                    exp_sources.push((sp.clone().unwrap(), c.clone()));
                }
            }
            let mut rseen: Vec<PathBuf> = vec![];
            let mut ref_dups = 0usize;
            for (_, c) in &r_exp {
                if rseen.contains(c) {
                    ref_dups += 1;
                } else {
                    rseen.push(c.clone());
                }
            }
            let exp_refs: BTreeSet<PathBuf> = rseen.iter().filter(|c| !seen.contains(c)).cloned().collect();
            let exp_lints = dup_spellings.len() + ref_dups;
            let exp_errors = s_bad + r_bad;

            let label = format!("sources={sources:?} references={references:?}");
            let mut options = SliceOptions::default();
            options.sources = sources.iter().map(|s| s.to_string()).collect();
            options.references = references.iter().map(|s| s.to_string()).collect();
            let out = std::panic::catch_unwind(|| {
                let mut diagnostics = Diagnostics::new();
                let files = slicec::utils::file_util::resolve_files_from(&options, &mut diagnostics);
                let got: Vec<(String, bool)> = files.iter().map(|f| (f.relative_path.clone(), f.is_source)).collect();
                let diags = diagnostics.into_inner();
                let lints: Vec<String> = diags.iter().filter(|d| d.code() == "DuplicateFile").map(|d| d.message()).collect();
                let errors = diags.iter().filter(|d| d.code() != "DuplicateFile").count();
                (got, lints, errors)
            });
            rep.case(!sources.is_empty() || !references.is_empty(), || label.clone());
            let (got, lints, errors) = match out {
                Err(_) => {
                    rep.counterexample(&label, "a file list and diagnostics", "PANIC in resolve_files_from");
                    continue;
                }
                Ok(x) => x,
            };
            let want_src: Vec<(String, bool)> = exp_sources.iter().map(|(s, _)| (s.clone(), true)).collect();
            let n = want_src.len().min(got.len());
            if got.len() < want_src.len() || got[..n] != want_src[..] {
                rep.counterexample(&label, &format!("sources first, in order, first spelling: {want_src:?} then {} reference file(s)", exp_refs.len()), &format!("{got:?}"));
                continue;
            }
            let rest = &got[want_src.len()..];
            let rest_canon: Vec<PathBuf> = rest.iter().map(|(p, _)| PathBuf::from(p).canonicalize().unwrap()).collect();
            let rest_set: BTreeSet<PathBuf> = rest_canon.iter().cloned().collect();
            if rest.iter().any(|(_, s)| *s) || rest_set.len() != rest.len() || rest_set != exp_refs {
                rep.counterexample(&label, &format!("after the sources: exactly the reference files not already present, each once, as references: {exp_refs:?}"), &format!("{rest:?}"));
                continue;
            }
            if lints.len() != exp_lints || !dup_spellings.iter().all(|s| lints.iter().any(|m| m.contains(&format!("'{s}'")))) {
                rep.counterexample(&label, &format!("{exp_lints} DuplicateFile warning(s), naming the repeated source spellings {dup_spellings:?}"), &format!("{lints:?}"));
                continue;
            }
            if errors != exp_errors {
                rep.counterexample(&label, &format!("{exp_errors} I/O error(s)"), &format!("{errors} error diagnostic(s)"));
            }
        }
    }
    let _ = std::env::set_current_dir(&base);
    let _ = fs::remove_dir_all(&root);
    rep.finish()
}
