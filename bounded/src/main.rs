//! slicec-bounded <check>   -- prints one JSON object per counterexample (at most 5) and a summary.
//! checks: plugin (C19)  preproc (C06)  decode (C11)  alloc (C11)  totals (C07)  visitor (C20)  fileset (C17)  lexical (C01)  snippet (C09)  lints (C13)  spans (C09)  request (C08)  comments (C16)  fidelity (C02)  scopes (C03)  rules (C04)  cycles (C05)  emission (C14)  roundtrip (C10)  generators (C18)
use std::collections::{BTreeMap, HashMap, HashSet};

mod oracle_comments;
mod oracle_cycles;
mod oracle_emission;
mod oracle_fidelity;
mod oracle_fileset;
mod oracle_generators;
mod oracle_targets;
mod oracle_lexical;
mod oracle_lints;
mod oracle_plugin;
mod oracle_preproc;
mod oracle_request;
#[path = "@REPO@/slicec/src/definition_types.rs"]
#[allow(dead_code, unused)]
mod definition_types;
#[path = "@REPO@/slicec/src/slice_file_converter.rs"]
#[allow(dead_code, unused)]
mod slice_file_converter;
mod oracle_roundtrip;
mod oracle_rules;
mod oracle_scopes;
mod oracle_snippet;
mod oracle_spans;
mod oracle_visitor;

// a counting allocator (stand-in `alloc`, C11): the largest single request since the last reset
pub struct Counting;
pub static MAX_REQ: std::sync::atomic::AtomicUsize = std::sync::atomic::AtomicUsize::new(0);
unsafe impl std::alloc::GlobalAlloc for Counting {
    unsafe fn alloc(&self, l: std::alloc::Layout) -> *mut u8 {
        MAX_REQ.fetch_max(l.size(), std::sync::atomic::Ordering::Relaxed);
        std::alloc::System.alloc(l)
    }
    unsafe fn dealloc(&self, p: *mut u8, l: std::alloc::Layout) {
        std::alloc::System.dealloc(p, l)
    }
    unsafe fn realloc(&self, p: *mut u8, l: std::alloc::Layout, n: usize) -> *mut u8 {
        MAX_REQ.fetch_max(n, std::sync::atomic::Ordering::Relaxed);
        std::alloc::System.realloc(p, l, n)
    }
    unsafe fn alloc_zeroed(&self, l: std::alloc::Layout) -> *mut u8 {
        MAX_REQ.fetch_max(l.size(), std::sync::atomic::Ordering::Relaxed);
        std::alloc::System.alloc_zeroed(l)
    }
}
#[global_allocator]
static ALLOCATOR: Counting = Counting;

fn js(s: &str) -> String {
    let mut o = String::from("\"");
    for c in s.chars() {
        match c {
            '"' => o.push_str("\\\""),
            '\\' => o.push_str("\\\\"),
            '\n' => o.push_str("\\n"),
            '\r' => o.push_str("\\r"),
            '\t' => o.push_str("\\t"),
            c if (c as u32) < 0x20 => o.push_str(&format!("\\u{:04x}", c as u32)),
            c => o.push(c),
        }
    }
    o.push('"');
    o
}

thread_local! { pub static LAST_PANIC: std::cell::RefCell<String> = std::cell::RefCell::new(String::new()); }

pub struct Report {
    check: &'static str,
    bound: String,
    cases: u64,
    nontrivial: u64,
    cex: u64,
    other: u64,
    panic_sites: BTreeMap<String, u64>,
    samples: Vec<String>,
}
impl Report {
    pub fn new(check: &'static str, bound: &str) -> Self {
        let bound = if std::env::var("VERIF_BOUNDED_DEEP").is_ok() && !bound.starts_with("DEEP") { format!("DEEP mode (thorough tier: the larger bounds of this stand-in, DESIGN.md section 6) -- {bound}") } else { bound.to_owned() };
        Report { check, bound, cases: 0, nontrivial: 0, cex: 0, other: 0, panic_sites: BTreeMap::new(), samples: vec![] }
    }
    pub fn case(&mut self, nontrivial: bool, sample: impl FnOnce() -> String) {
        self.cases += 1;
        if nontrivial {
            self.nontrivial += 1;
            if self.samples.len() < 4 && self.nontrivial % 997 == 1 {
                self.samples.push(sample());
            }
        }
    }
    pub fn counterexample(&mut self, input: &str, expected: &str, got: &str) {
        self.cex += 1;
        // a panic is reported with the source location it was raised at (panic hook below); at most 2
        // inputs are printed per distinct location, at most 5 other counterexamples
        let mut got = got.to_owned();
        let print = if got.contains("PANIC") {
            let loc = LAST_PANIC.with(|l| l.borrow().clone());
            if !loc.is_empty() { got = format!("{got} at {loc}"); }
            let n = self.panic_sites.entry(loc).or_insert(0);
            *n += 1;
            *n <= 2 && self.panic_sites.len() <= 40
        } else {
            self.other += 1;
            self.other <= 400
        };
        if print {
            println!("{{\"counterexample\":{{\"check\":{},\"input\":{},\"expected\":{},\"got\":{}}}}}", js(self.check), js(input), js(expected), js(&got));
        }
    }
    pub fn finish(self) -> i32 {
        println!(
            "{{\"summary\":{{\"check\":{},\"bound\":{},\"cases\":{},\"distinct_nontrivial\":{},\"counterexamples\":{},\"samples\":[{}]}}}}",
            js(self.check), js(&self.bound), self.cases, self.nontrivial, self.cex,
            self.samples.iter().map(|s| js(s)).collect::<Vec<_>>().join(",")
        );
        if self.cex > 0 { 1 } else { 0 }
    }
}

fn main() {
    std::panic::set_hook(Box::new(|info| {
        let loc = info.location().map(|l| format!("{}:{}", l.file(), l.line())).unwrap_or_default();
        LAST_PANIC.with(|l| *l.borrow_mut() = loc);
    }));
    let arg = std::env::args().nth(1).unwrap_or_default();
    let rc = match arg.as_str() {
        "plugin" => oracle_plugin::run(),
        "preproc" => oracle_preproc::run(),
        "decode" => decode_check(),
        "alloc" => alloc_check(),
        "totals" => totals_check(),
        "visitor" => oracle_visitor::run(),
        "fileset" => oracle_fileset::run(),
        "lexical" => oracle_lexical::run(),
        "snippet" => oracle_snippet::run(),
        "lints" => oracle_lints::run(),
        "spans" => oracle_spans::run(),
        "request" => oracle_request::run(),
        "comments" => oracle_comments::run(),
        "fidelity" => oracle_fidelity::run(),
        "scopes" => oracle_scopes::run(),
        "rules" => oracle_rules::run(),
        "cycles" => oracle_cycles::run(),
        "emission" => oracle_emission::run(),
        "roundtrip" => oracle_roundtrip::run(),
        "generators" => oracle_generators::run(),
        "targets" => oracle_targets::run(),
        "cycles-child" => oracle_cycles::child(std::env::args().nth(2).and_then(|s| s.parse().ok()).unwrap_or(0)),
        "one" => oracle_lexical::one(&std::env::args().nth(2).unwrap_or_default()),
        _ => {
            eprintln!("usage: slicec-bounded plugin|preproc|decode|totals|visitor|fileset|lexical|snippet|lints|spans|request|comments|fidelity|scopes|rules|cycles|emission|roundtrip|generators|targets");
            2
        }
    };
    std::process::exit(rc);
}

// ------------------------------------------------------------------------------------------------
// C11: every byte string of length <= 2 (and length 3..4 over a small alphabet), for each decodable
// type: no panic, cursor stays inside the buffer, every error renders.
// ------------------------------------------------------------------------------------------------
fn decode_check() -> i32 {
    use slice_codec::buffer::slice::SliceInputSource;
    use slice_codec::buffer::InputSource;
    use slice_codec::decoder::Decoder;
    let mut rep = Report::new("decode", "all byte strings of length <= 2, plus length 3..=4 over the alphabet {00,01,04,08,0c,41,e2,82,ff,fe,fc}; 9 types: no panic, cursor inside, errors render; + strictness: every key sequence of length <= 4 over 3 keys for both dictionary types (Ok iff distinct), every byte as a bool");
    let alpha: [u8; 11] = [0x00, 0x01, 0x04, 0x08, 0x0c, 0x41, 0xe2, 0x82, 0xff, 0xfe, 0xfc];
    let mut inputs: Vec<Vec<u8>> = vec![vec![]];
    for a in 0..=255u8 { inputs.push(vec![a]); }
    for a in 0..=255u8 { for b in 0..=255u8 { inputs.push(vec![a, b]); } }
    for &a in &alpha { for &b in &alpha { for &c in &alpha { inputs.push(vec![a, b, c]); for &d in &alpha { inputs.push(vec![a, b, c, d]); } } } }
    type Dec = fn(&mut Decoder<SliceInputSource<'_>>) -> Result<(), slice_codec::Error>;
    let types: Vec<(&str, Dec)> = vec![
        ("bool", |d| d.decode::<bool>().map(|_| ())),
        ("varint32", |d| d.decode_varint::<i32>().map(|_| ())),
        ("size", |d| d.decode_size().map(|_| ())),
        ("string", |d| d.decode::<String>().map(|_| ())),
        ("vec_u8", |d| d.decode::<Vec<u8>>().map(|_| ())),
        ("vec_string", |d| d.decode::<Vec<String>>().map(|_| ())),
        ("hashmap_u8_u8", |d| d.decode::<HashMap<u8, u8>>().map(|_| ())),
        ("btreemap_u8_u8", |d| d.decode::<BTreeMap<u8, u8>>().map(|_| ())),
        ("skip_tagged", |d| d.skip_tagged_fields()),
    ];
    for input in &inputs {
        // announced sizes are capped by the input's length in these tiny inputs except for the
        // known-finding allocations (Vec/HashMap reserve the announced count): skip inputs whose
        // first size prefix announces more than 4096 elements to keep the run cheap
        // first size prefix (if any): collections reserve the ANNOUNCED count (known findings), so tiny
        // inputs announcing huge sizes are skipped for the collection types to keep the run cheap
        let announced: u64 = if input.is_empty() { 0 } else {
            let w = [1usize, 2, 4, 8][(input[0] & 3) as usize];
            if input.len() < w { 0 } else { let mut r = 0u64; for i in 0..w { r |= (input[i] as u64) << (8 * i); } r >> 2 }
        };
        for (name, f) in &types {
            if announced > 4096 && (name.starts_with("vec") || name.contains("map")) { continue; }
            let data = input.clone();
            let f = *f;
            let out = std::panic::catch_unwind(move || {
                let mut dec = Decoder::new(SliceInputSource::from(&data[..]));
                let r = f(&mut dec);
                let consumed_ok = dec.remaining() <= data.len();
                let renders = match &r {
                    Ok(_) => Ok(true),
                    Err(e) => std::panic::catch_unwind(std::panic::AssertUnwindSafe(|| !e.to_string().is_empty())),
                };
                (r.is_ok(), consumed_ok, renders.is_ok())
            });
            let hexs: String = input.iter().map(|b| format!("{b:02x}")).collect();
            rep.case(input.len() >= 2, || format!("{name}:{hexs}"));
            match out {
                Err(_) => rep.counterexample(&format!("{name}:{hexs}"), "Ok or Err", "PANIC while decoding"),
                Ok((_, false, _)) => rep.counterexample(&format!("{name}:{hexs}"), "cursor inside buffer", "cursor outside"),
                Ok((_, _, false)) => rep.counterexample(&format!("{name}:{hexs}"), "error renders", "PANIC while rendering the error"),
                _ => {}
            }
        }
    }
    // strictness of dictionaries: every key sequence of length <= 4 over 3 keys (a repeated key in EVERY pair of positions, adjacent or
    // not, in wire order ascending or not), both dictionary types: Ok iff the keys are distinct, and then the map is the entries
    for n in 0..=4usize {
        for code in 0..3usize.pow(n as u32) {
            let keys: Vec<u8> = (0..n).map(|i| [7u8, 9, 3][(code / 3usize.pow(i as u32)) % 3]).collect();
            let mut data = vec![(n as u8) << 2];
            for (i, k) in keys.iter().enumerate() { data.push(*k); data.push(10 + i as u8); }
            let distinct = (0..n).all(|i| (0..i).all(|j| keys[i] != keys[j]));
            let want: Option<BTreeMap<u8, u8>> = if distinct { Some(keys.iter().enumerate().map(|(i, k)| (*k, 10 + i as u8)).collect()) } else { None };
            for which in ["hashmap_u8_u8", "btreemap_u8_u8"] {
                let d2 = data.clone();
                let label = format!("{which}:{}", data.iter().map(|b| format!("{b:02x}")).collect::<String>());
                rep.case(true, || label.clone());
                let out = std::panic::catch_unwind(move || {
                    let mut dec = Decoder::new(SliceInputSource::from(&d2[..]));
                    let r: Option<BTreeMap<u8, u8>> = if which == "hashmap_u8_u8" { dec.decode::<HashMap<u8, u8>>().ok().map(|m| m.into_iter().collect()) } else { dec.decode::<BTreeMap<u8, u8>>().ok() };
                    (r, dec.remaining())
                });
                match out {
                    Err(_) => rep.counterexample(&label, "Ok or Err", "PANIC while decoding"),
                    Ok((got, rest)) => {
                        if got != want { rep.counterexample(&label, &format!("{want:?} (a dictionary with a repeated key is refused, wherever the repetition is)"), &format!("{got:?}")); }
                        else if got.is_some() && rest != 0 { rep.counterexample(&label, "all bytes consumed", &format!("{rest} left")); }
                    }
                }
            }
        }
    }
    // strictness of bool: only 0 and 1
    for b in 0..=255u8 {
        let label = format!("bool strict:{b:02x}");
        rep.case(true, || label.clone());
        let got = std::panic::catch_unwind(move || { let d = [b]; let mut dec = Decoder::new(SliceInputSource::from(&d[..])); dec.decode::<bool>().ok() });
        let want = match b { 0 => Some(false), 1 => Some(true), _ => None };
        match got { Err(_) => rep.counterexample(&label, "Ok or Err", "PANIC"), Ok(g) => if g != want { rep.counterexample(&label, &format!("{want:?}"), &format!("{g:?}")); } }
    }
    rep.finish()
}

// ------------------------------------------------------------------------------------------------
// C11: "its cost in time and memory is governed by the length of the input, not by the sizes the input merely
// announces": inputs of <= 12 bytes that ANNOUNCE up to 2^61 elements / bytes, at the top level and one level down,
// for every decodable collection type, under a counting allocator: no single request above 1 MiB, no decode above 1 s.
// ------------------------------------------------------------------------------------------------
fn alloc_check() -> i32 {
    use slice_codec::buffer::slice::SliceInputSource;
    use slice_codec::decoder::Decoder;
    use std::sync::atomic::Ordering;
    let mut rep = Report::new("alloc", "announced sizes 2^24-1 / 2^28 / 2^30-1 (4-byte form) and 2^40 / 2^61 (8-byte form) x 4 tails (nothing, 1 byte, 3 bytes, 7 bytes) x at the top level / as the first element of a one-element sequence x 10 collection types: largest single allocation request <= 1 MiB, decode time <= 1 s");
    let announced: Vec<Vec<u8>> = vec![
        ((((1u64 << 24) - 1) << 2) | 2).to_le_bytes()[..4].to_vec(), (((1u64 << 28) << 2) | 2).to_le_bytes()[..4].to_vec(), vec![0xfe, 0xff, 0xff, 0xff],
        (((1u64 << 40) << 2) | 3).to_le_bytes().to_vec(), ((((1u64 << 61) - 1) << 2) | 3).to_le_bytes().to_vec(),
    ];
    let tails: [&[u8]; 4] = [&[], &[0x61], &[0x61, 0x62, 0x63], &[0, 1, 2, 3, 4, 5, 6]];
    type Dec = fn(&mut Decoder<SliceInputSource<'_>>) -> bool;
    let types: Vec<(&str, Dec, bool)> = vec![
        ("String", |d| d.decode::<String>().is_ok(), false),
        ("Vec<u8>", |d| d.decode::<Vec<u8>>().is_ok(), false),
        ("Vec<u64>", |d| d.decode::<Vec<u64>>().is_ok(), false),
        ("Vec<String>", |d| d.decode::<Vec<String>>().is_ok(), true),
        ("Vec<Vec<u64>>", |d| d.decode::<Vec<Vec<u64>>>().is_ok(), true),
        ("HashMap<u8,u8>", |d| d.decode::<HashMap<u8, u8>>().is_ok(), false),
        ("HashMap<String,String>", |d| d.decode::<HashMap<String, String>>().is_ok(), true),
        ("BTreeMap<u8,u8>", |d| d.decode::<BTreeMap<u8, u8>>().is_ok(), false),
        ("BTreeMap<String,Vec<u64>>", |d| d.decode::<BTreeMap<String, Vec<u64>>>().is_ok(), true),
        ("Vec<HashMap<u8,u64>>", |d| d.decode::<Vec<HashMap<u8, u64>>>().is_ok(), true),
    ];
    for (name, f, nests) in &types {
        for a in &announced {
            for t in tails {
                for inner in [false, true] {
                    if inner && !nests { continue; }
                    let mut input: Vec<u8> = if inner { vec![0x04] } else { vec![] }; // a sequence / dictionary of ONE element whose first part announces the size
                    input.extend_from_slice(a);
                    input.extend_from_slice(t);
                    let label = format!("{name}: {}", input.iter().map(|b| format!("{b:02x}")).collect::<String>());
                    rep.case(true, || label.clone());
                    let f = *f;
                    let data = input.clone();
                    MAX_REQ.store(0, Ordering::Relaxed);
                    let t0 = std::time::Instant::now();
                    let r = std::panic::catch_unwind(move || { let mut d = Decoder::new(SliceInputSource::from(&data[..])); f(&mut d) });
                    let secs = t0.elapsed().as_secs_f64();
                    let req = MAX_REQ.load(Ordering::Relaxed);
                    match r {
                        Err(_) => rep.counterexample(&label, "Ok or Err", "PANIC while decoding"),
                        Ok(_) if req > (1 << 20) => rep.counterexample(&label, &format!("memory governed by the {} bytes of input", input.len()), &format!("a single allocation request of {req} bytes")),
                        Ok(_) if secs > 1.0 => rep.counterexample(&label, &format!("time governed by the {} bytes of input", input.len()), &format!("{secs:.1} s")),
                        Ok(_) => {}
                    }
                }
            }
        }
    }
    rep.finish()
}

// ------------------------------------------------------------------------------------------------
// C07: totals agree with the levels of the emitted diagnostics, for a corpus x suppression options.
// ------------------------------------------------------------------------------------------------
fn totals_check() -> i32 {
    use slicec::diagnostics::{get_totals, DiagnosticLevel};
    use slicec::slice_options::SliceOptions;
    let mut rep = Report::new("totals", "8 programs x 4 suppression settings: totals vs levels of the updated diagnostics; 5 multi-phase programs: a later phase runs only if no error was recorded so far, warnings never stop one");
    let corpus = [
        "module M\n[deprecated] struct A {}\nstruct B { a: A }\n",
        "module M\n/// @param x: nothing\ninterface I { op() }\n",
        "module M\nstruct A { a: Missing }\n",
        "module M\n[deprecated] struct A {}\nstruct B { a: A, b: Missing }\n",
        "module M\nstruct A {}\n",
        "module M\n/// {@link Nope}\nstruct A {}\n",
        "module M\n[allow(Deprecated)]\n[deprecated] struct A {}\nstruct B { a: A }\ncompact struct C {}\n",
        "module M\n[deprecated] interface I {}\ninterface J : I {}\nstruct S { i: I }\n",
    ];
    let allows: [&[&str]; 4] = [&[], &["All"], &["Deprecated"], &["BrokenDocLink", "IncorrectDocComment"]];
    for text in corpus {
        for allow in allows {
            let mut options = SliceOptions::default();
            options.allowed_lints = allow.iter().map(|s| s.to_string()).collect();
            let state = slicec::compile_from_strings(&[text], Some(&options));
            let diags = state.into_diagnostics(&options);
            let (w, e) = get_totals(&diags);
            let ew = diags.iter().filter(|d| d.level() == DiagnosticLevel::Warning).count();
            let ee = diags.iter().filter(|d| d.level() == DiagnosticLevel::Error).count();
            rep.case(!diags.is_empty(), || format!("{:?} allow={:?} -> ({w},{e})", text, allow));
            if (w, e) != (ew, ee) {
                rep.counterexample(&format!("{text:?} allow={allow:?}"), &format!("(warnings,errors)=({ew},{ee})"), &format!("({w},{e})"));
            }
        }
    }
    // ---- phase gating: a later phase runs only if no error was recorded so far; warnings never stop one -------
    let phase_cases: [(&str, &[&str], &[&str], &[&str]); 5] = [
        ("syntax error in one file, unresolved type in another: patching must not run", &["module A\nstruct S {\n", "module B\nstruct T { m: Missing }\n"], &["E002"], &["E033"]),
        ("unresolved type, and a rule violation elsewhere: validation must not run", &["module A\nstruct T { m: Missing }\n", "module B\ncompact struct C {}\n"], &["E033"], &["E018"]),
        ("only a parse-time WARNING (malformed doc comment): patching and validation still run", &["module A\n/// @nosuchtag x\nstruct S {}\ncompact struct C {}\n"], &["MalformedDocComment", "E018"], &[]),
        ("only a patch-time WARNING (deprecated use): validation still runs", &["module A\n[deprecated] struct Old {}\nstruct U { o: Old }\ncompact struct C {}\n"], &["Deprecated", "E018"], &[]),
        ("a cycle: the recursive validators must not run after it", &["module A\nstruct S { s: S }\ncompact struct C {}\n"], &["E032"], &["E018"]),
    ];
    for (name, files, must, must_not) in phase_cases {
        rep.case(true, || name.to_owned());
        let fs: Vec<String> = files.iter().map(|s| s.to_string()).collect();
        let out = std::panic::catch_unwind(move || {
            let refs: Vec<&str> = fs.iter().map(|s| s.as_str()).collect();
            let options = SliceOptions::default();
            let state = slicec::compile_from_strings(&refs, Some(&options));
            state.into_diagnostics(&options).iter().map(|d| d.code().to_owned()).collect::<Vec<_>>()
        });
        match out {
            Err(_) => rep.counterexample(name, "diagnostics", "PANIC"),
            Ok(codes) => {
                let missing: Vec<&&str> = must.iter().filter(|c| !codes.iter().any(|x| x == **c)).collect();
                let extra: Vec<&&str> = must_not.iter().filter(|c| codes.iter().any(|x| x == **c)).collect();
                if !missing.is_empty() || !extra.is_empty() { rep.counterexample(&format!("{name}: {files:?}"), &format!("codes including {must:?} and none of {must_not:?}"), &format!("{codes:?}")); }
            }
        }
    }
    // ---- the same through compile_from_options: a WARNING recorded while resolving the files (a path listed twice)
    // must not stop parsing / patching / validation; an unreadable path (an ERROR) must
    {
        let base = std::env::var("VERIF_SCRATCH").map(std::path::PathBuf::from).unwrap_or_else(|_| std::env::temp_dir());
        let dir = base.join(format!("slicec_totals_{}", std::process::id()));
        let _ = std::fs::remove_dir_all(&dir);
        std::fs::create_dir_all(&dir).unwrap();
        let bad = dir.join("bad.slice");
        std::fs::write(&bad, "module A\ncompact struct C {}\n").unwrap();
        let bad_s = bad.to_string_lossy().to_string();
        let missing = dir.join("missing.slice").to_string_lossy().to_string();
        for (name, sources, must, must_not) in [
            ("a path listed twice (DuplicateFile warning): the file is still compiled and its error reported", vec![bad_s.clone(), bad_s.clone()], vec!["DuplicateFile", "E018"], vec![]),
            ("a missing path (I/O error): nothing is parsed", vec![bad_s.clone(), missing.clone()], vec!["E001"], vec!["E018"]),
        ] {
            rep.case(true, || name.to_owned());
            let out = std::panic::catch_unwind(move || {
                let mut options = SliceOptions::default();
                options.sources = sources;
                let state = slicec::compile_from_options(&options);
                state.into_diagnostics(&options).iter().map(|d| d.code().to_owned()).collect::<Vec<_>>()
            });
            match out {
                Err(_) => rep.counterexample(name, "diagnostics", "PANIC"),
                Ok(codes) => {
                    let missing_c: Vec<&&str> = must.iter().filter(|c| !codes.iter().any(|x| x == **c)).collect();
                    let extra: Vec<&&str> = must_not.iter().filter(|c| codes.iter().any(|x| x == **c)).collect();
                    if !missing_c.is_empty() || !extra.is_empty() { rep.counterexample(name, &format!("codes including {must:?} and none of {must_not:?}"), &format!("{codes:?}")); }
                }
            }
        }
        let _ = std::fs::remove_dir_all(&dir);
    }
    rep.finish()
}

pub fn hs(v: &[&str]) -> HashSet<String> { v.iter().map(|s| s.to_string()).collect() }
