//! C13 (bounded stand-in): lint suppression silences exactly the named lints in scope, never errors,
//! and changes nothing else.
//!
//! For each lint kind that a program text can produce (Deprecated, BrokenDocLink, IncorrectDocComment,
//! MalformedDocComment) a template program yields exactly one such lint about a known element, plus one
//! ERROR (so that "never an error" is exercised). Every placement of a suppression -- command line
//! (as written, and in another letter case the command line accepts), file attribute, the enclosing
//! definition, the element itself, an unrelated sibling, another file -- x every argument -- that
//! lint, `All`, a different lint, a list containing it -- is compiled by the REAL compiler and
//! compared with the run WITHOUT suppression: the oracle (the property's sentence) says which single
//! diagnostic may change, and only from Warning to Allowed.
use crate::Report;
use clap::Parser;
use slicec::diagnostics::DiagnosticLevel;
use slicec::slice_options::SliceOptions;

struct Template { lint: &'static str, other: &'static str, text: &'static str }
/// templates whose lint is about a top-level definition: there is no enclosing definition to carry an attribute
fn has_enclosing(t: &Template) -> bool { t.text.contains("{ENCL}") }

// {FILE} {ENCL} {ELEM} {SIB}: attribute slots. Every template also contains one error (a validation error: an empty compact struct).
const TEMPLATES: &[Template] = &[
    Template { lint: "Deprecated", other: "BrokenDocLink",
        text: "{FILE}module M\n[deprecated] struct Old {}\n{ENCL}struct User {\n    {ELEM}f: Old\n    {SIB}g: bool\n}\ncompact struct Bad {}\n" },
    Template { lint: "BrokenDocLink", other: "Deprecated",
        text: "{FILE}module M\n{ENCL}interface I {\n    /// See {@link Nope}.\n    {ELEM}op()\n    {SIB}op2()\n}\ncompact struct Bad {}\n" },
    Template { lint: "IncorrectDocComment", other: "Deprecated",
        text: "{FILE}module M\n{ENCL}interface I {\n    /// @param nope: there is no such parameter\n    {ELEM}op()\n    {SIB}op2()\n}\ncompact struct Bad {}\n" },
    Template { lint: "MalformedDocComment", other: "Deprecated",
        text: "{FILE}module M\n{ENCL}interface I {\n    /// @nosuchtag text\n    {ELEM}op()\n    {SIB}op2()\n}\ncompact struct Bad {}\n" },
    // TWO lints of different kinds about the SAME element (one scope): a suppression naming one of them leaves the other alone,
    // whichever is recorded first
    Template { lint: "BrokenDocLink", other: "Deprecated",
        text: "{FILE}module M\n{ENCL}interface I {\n    /// See {@link Nope}.\n    /// @param nope: there is no such parameter\n    {ELEM}op()\n    {SIB}op2()\n}\ncompact struct Bad {}\n" },
    Template { lint: "IncorrectDocComment", other: "Deprecated",
        text: "{FILE}module M\n{ENCL}interface I {\n    /// See {@link Nope}.\n    /// @param nope: there is no such parameter\n    {ELEM}op()\n    {SIB}op2()\n}\ncompact struct Bad {}\n" },
    Template { lint: "IncorrectDocComment", other: "MalformedDocComment",
        text: "{FILE}module M\n[deprecated] struct Old {}\n{ENCL}interface I {\n    /// @param nope: there is no such parameter\n    {ELEM}op(p: Old)\n    {SIB}op2()\n}\ncompact struct Bad {}\n" },
    // lints about references that are NOT members (an alias's underlying type, a base interface), placed AFTER a definition with
    // members: the suppression on those unrelated members (the {SIB} slot) must have no effect on them
    Template { lint: "Deprecated", other: "BrokenDocLink",
        text: "{FILE}module M\n[deprecated] struct Old {}\nstruct Holder {\n    {SIB}h: bool\n    i: string\n}\n{ELEM}typealias T = Old\ncompact struct Bad {}\n" },
    Template { lint: "Deprecated", other: "IncorrectDocComment",
        text: "{FILE}module M\n[deprecated] interface OldI {}\ninterface K {\n    op({SIB}p: bool) -> string\n}\n{ELEM}interface J : OldI {}\ncompact struct Bad {}\n" },
];

fn fill(t: &str, file: &str, encl: &str, elem: &str, sib: &str) -> String {
    t.replace("{FILE}", file).replace("{ENCL}", encl).replace("{ELEM}", elem).replace("{SIB}", sib)
}

type Obs = Vec<(String, String, String)>; // (code, message, level)

fn compile(texts: &[&str], options: &SliceOptions) -> Result<Obs, String> {
    let texts: Vec<String> = texts.iter().map(|s| s.to_string()).collect();
    let options = SliceOptions { allowed_lints: options.allowed_lints.clone(), ..SliceOptions::default() };
    let r = std::panic::catch_unwind(move || {
        let refs: Vec<&str> = texts.iter().map(|s| s.as_str()).collect();
        let state = slicec::compile_from_strings(&refs, Some(&options));
        let diags = state.into_diagnostics(&options);
        diags.iter().map(|d| (d.code().to_owned(), d.message(), match d.level() { DiagnosticLevel::Error => "Error", DiagnosticLevel::Warning => "Warning", DiagnosticLevel::Allowed => "Allowed" }.to_owned())).collect::<Obs>()
    });
    r.map_err(|_| "PANIC".to_owned())
}

pub fn run() -> i32 {
    let mut rep = Report::new("lints", "4 lint kinds (9 templates: also lints about an alias's underlying type and a base interface, after a definition with members, and two lints of different kinds about one element) x 11 placements of a suppression (incl. repeated allow attributes) x 4 arguments on template programs (each with one lint about a known element and one error), against the run without suppression");
    for t in TEMPLATES {
        let plain = fill(t.text, "", "", "", "");
        let base = match compile(&[&plain], &SliceOptions::default()) { Ok(b) => b, Err(m) => { rep.counterexample(&plain, "diagnostics", &m); continue; } };
        let n_lint = base.iter().filter(|d| d.0 == t.lint).count();
        let n_err = base.iter().filter(|d| d.2 == "Error").count();
        rep.case(true, || format!("template {} -> {:?}", t.lint, base));
        if n_lint != 1 || n_err == 0 || base.iter().any(|d| d.2 == "Allowed") {
            rep.counterexample(&plain, &format!("exactly one {} warning and at least one error, nothing allowed", t.lint), &format!("{base:?}"));
            continue;
        }
        let args: [(String, bool); 4] = [
            (t.lint.to_owned(), true), ("All".to_owned(), true), (t.other.to_owned(), false), (format!("{}, {}", t.other, t.lint), true),
        ];
        for (arg, names_it) in &args {
            let attr = format!("[allow({arg})] ");
            let fattr = format!("[[allow({arg})]]\n");
            // (placement name, texts, cli values, in scope?)
            let mut cases: Vec<(&str, Vec<String>, Vec<String>, bool)> = vec![
                ("file attribute", vec![fill(t.text, &fattr, "", "", "")], vec![], true),
                ("enclosing definition", vec![fill(t.text, "", &attr, "", "")], vec![], has_enclosing(t)),
                ("the element itself", vec![fill(t.text, "", "", &attr, "")], vec![], true),
                ("an unrelated sibling", vec![fill(t.text, "", "", "", &attr)], vec![], false),
                ("another file", vec![plain.clone(), format!("{fattr}module N\n")], vec![], false),
            ];
            // several `allow` attributes in one lookup list (`allow` is repeatable; the parent's come after the element's)
            let other_attr = format!("[allow({})] ", t.other);
            let other_fattr = format!("[[allow({})]]\n", t.other);
            cases.push(("the element itself, after another allow attribute", vec![fill(t.text, "", "", &format!("{other_attr}{attr}"), "")], vec![], true));
            cases.push(("a second file attribute", vec![fill(t.text, &format!("{other_fattr}{fattr}"), "", "", "")], vec![], true));
            cases.push(("enclosing definition, while the element allows something else", vec![fill(t.text, "", &attr, &other_attr, "")], vec![], has_enclosing(t)));
            // command line: one --allow per identifier, as written and lower-cased
            let ids: Vec<String> = arg.split(',').map(|s| s.trim().to_owned()).collect();
            cases.push(("command line", vec![plain.clone()], ids.clone(), true));
            cases.push(("command line (lower case)", vec![plain.clone()], ids.iter().map(|s| s.to_lowercase()).collect(), true));
            let mut element_placement_works = true;
            for (place, texts, cli, in_scope) in cases {
                // a placement derived from "the element itself" adds nothing when that one already fails
                if place.starts_with("the element itself,") && !element_placement_works { continue; }
                let mut argv = vec!["slicec".to_owned()];
                for v in &cli { argv.push("--allow".to_owned()); argv.push(v.clone()); }
                argv.push("x.slice".to_owned());
                let label = format!("lint={} suppression `{}` at: {} :: {:?}{}", t.lint, arg, place, texts, if cli.is_empty() { String::new() } else { format!(" argv={argv:?}") });
                rep.case(true, || label.clone());
                let options = match SliceOptions::try_parse_from(&argv) {
                    Ok(o) => o,
                    Err(_) => continue, // a value the command line does not accept: the property says nothing
                };
                let refs: Vec<&str> = texts.iter().map(|s| s.as_str()).collect();
                let got = match compile(&refs, &options) { Ok(g) => g, Err(m) => { rep.counterexample(&label, "diagnostics", &m); continue; } };
                // oracle: the same diagnostics, in the same order, with the same levels, except that
                // the one lint is Allowed iff the suppression names it and is in scope
                // (every warning of a template is about the {ELEM} element, so "in scope" is the same for all of them)
                let named = |code: &str| ids.iter().any(|i| i == "All" || i == code);
                debug_assert_eq!(*names_it, named(t.lint));
                let want: Obs = base.iter().map(|d| if d.2 == "Warning" && in_scope && named(&d.0) { (d.0.clone(), d.1.clone(), "Allowed".to_owned()) } else { d.clone() }).collect();
                if got != want {
                    if place == "the element itself" { element_placement_works = false; }
                    let show = |o: &Obs| o.iter().map(|d| format!("{}:{}", d.0, d.2)).collect::<Vec<_>>().join(" ");
                    rep.counterexample(&label, &show(&want), &show(&got));
                }
            }
        }
    }
    rep.finish()
}
