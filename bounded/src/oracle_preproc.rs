//! C06 bounded stand-in: enumerated preprocessor programs (directives + one-line definitions),
//! compiled by the REAL compiler; the set of definitions that survive is compared with this oracle,
//! the executable twin of specs/preproc_sem.rs (written from the property statement).
use crate::Report;
use slicec::slice_options::SliceOptions;
use std::collections::HashSet;

#[derive(Clone, Debug)]
enum Item {
    Def(usize),                       // struct S<i> {}
    Define(char),
    Undef(char),
    If(Vec<(Cond, Vec<Item>)>, Option<Vec<Item>>), // if / elif*  + else
}
#[derive(Clone, Copy, Debug)]
enum Cond { A, NotA, B, AandB, AorB, NotAorB }
impl Cond {
    fn text(self) -> &'static str {
        match self { Cond::A => "A", Cond::NotA => "!A", Cond::B => "B", Cond::AandB => "A && B", Cond::AorB => "A || B", Cond::NotAorB => "!A || B" }
    }
    fn eval(self, s: &HashSet<char>) -> bool {
        let (a, b) = (s.contains(&'A'), s.contains(&'B'));
        match self { Cond::A => a, Cond::NotA => !a, Cond::B => b, Cond::AandB => a && b, Cond::AorB => a || b, Cond::NotAorB => !a || b }
    }
}

fn render(items: &[Item], out: &mut String) {
    for it in items {
        match it {
            Item::Def(i) => out.push_str(&format!("struct S{i} {{}}\n")),
            Item::Define(c) => out.push_str(&format!("#define {c}\n")),
            Item::Undef(c) => out.push_str(&format!("#undef {c}\n")),
            Item::If(secs, els) => {
                for (k, (c, body)) in secs.iter().enumerate() {
                    out.push_str(&format!("{} {}\n", if k == 0 { "#if" } else { "#elif" }, c.text()));
                    render(body, out);
                }
                if let Some(body) = els { out.push_str("#else\n"); render(body, out); }
                out.push_str("#endif\n");
            }
        }
    }
}

/// the oracle: which definitions are selected, and the symbol set afterwards
fn interp(items: &[Item], syms: &mut HashSet<char>, out: &mut Vec<usize>) {
    for it in items {
        match it {
            Item::Def(i) => out.push(*i),
            Item::Define(c) => { syms.insert(*c); }
            Item::Undef(c) => { syms.remove(c); }
            Item::If(secs, els) => {
                // the FIRST section whose condition holds; later conditions are not consulted
                let mut taken = false;
                for (c, body) in secs {
                    if c.eval(syms) { interp(body, syms, out); taken = true; break; }
                }
                if !taken { if let Some(body) = els { interp(body, syms, out); } }
            }
        }
    }
}

/// block number `k` of a small family; definitions get FRESH numbers on every call so that every
/// survivor is identifiable and no program redefines a name
fn block(k: usize, next_def: &mut usize) -> Vec<Item> {
    let mut d = || { *next_def += 1; Item::Def(*next_def) };
    match k {
        0 => vec![],
        1 => vec![d()],
        2 => vec![Item::Define('A'), d()],
        3 => vec![Item::Undef('A'), d()],
        4 => vec![d(), Item::Define('B')],
        5 => { let (i1, i2, t) = (vec![d()], vec![Item::Define('B'), d()], d()); vec![Item::If(vec![(Cond::A, i1)], Some(i2)), t] }
        6 => { let (i1, i2, t) = (vec![d()], vec![Item::Define('B'), d()], d()); vec![Item::If(vec![(Cond::NotA, i1)], Some(i2)), t] }
        _ => { let (i1, i2, t) = (vec![Item::Undef('B'), d()], vec![d()], d()); vec![Item::If(vec![(Cond::AorB, i1)], Some(i2)), t] }
    }
}

fn survivors(text: &[&str], defined: &[char]) -> Result<Vec<Vec<usize>>, String> {
    let mut options = SliceOptions::default();
    options.defined_symbols = defined.iter().map(|c| c.to_string()).collect();
    let texts: Vec<String> = text.iter().map(|t| format!("module M\n{t}")).collect();
    let refs: Vec<&str> = texts.iter().map(|s| s.as_str()).collect();
    let r = std::panic::catch_unwind(|| {
        let state = slicec::compile_from_strings(&refs, Some(&options));
        if state.diagnostics.has_errors() { return Err("unexpected error diagnostics".to_owned()); }
        let mut per_file = vec![];
        for f in &state.files {
            let mut v = vec![];
            for d in &f.contents {
                if let slicec::grammar::Definition::Struct(s) = d {
                    use slicec::grammar::NamedSymbol;
                    v.push(s.borrow().identifier()[1..].parse::<usize>().unwrap_or(0));
                }
            }
            per_file.push(v);
        }
        Ok(per_file)
    });
    match r { Err(_) => Err("PANIC".to_owned()), Ok(x) => x }
}

pub fn run() -> i32 {
    let mut rep = Report::new("preproc", "conditionals with <= 3 sections (if/elif/elif) + optional else over 6 conditions, bodies from a family of 8 blocks incl. one nested level, x 4 external symbol sets; plus two-file isolation cases");
    let conds = [Cond::A, Cond::NotA, Cond::B, Cond::AandB, Cond::AorB, Cond::NotAorB];
    let ext: [&[char]; 4] = [&[], &['A'], &['B'], &['A', 'B']];
    let mut programs: Vec<Vec<Item>> = vec![];
    // prefix block ; if c1 {b1} [elif c2 {b2}] [elif c3 {b3}] [else {b4}] ; trailing definition
    for pre in [0usize, 2, 3] {
        for (i1, c1) in conds.iter().enumerate() {
            for b1 in [1usize, 2, 3, 5] {
                for nelif in 0..=2usize {
                    for (i2, c2) in conds.iter().enumerate() {
                        if nelif == 0 && i2 > 0 { continue; }
                        for c3 in [Cond::B, Cond::AorB] {
                            if nelif < 2 && !matches!(c3, Cond::B) { continue; }
                            for els in [None, Some(4usize), Some(1)] {
                                let mut n = 0usize;
                                let mut secs = vec![(*c1, block(b1, &mut n))];
                                if nelif >= 1 { secs.push((*c2, block((i1 + i2) % 4 + 1, &mut n))); }
                                if nelif >= 2 { secs.push((c3, block(6, &mut n))); }
                                let mut p = block(pre, &mut n);
                                let e = els.map(|k| block(k, &mut n));
                                p.push(Item::If(secs, e));
                                p.push(Item::Def(900));
                                p.push(Item::If(vec![(Cond::B, vec![Item::Def(901)])], Some(vec![Item::Def(902)])));
                                programs.push(p);
                            }
                        }
                    }
                }
            }
        }
    }
    for p in &programs {
        let mut text = String::new();
        render(p, &mut text);
        for e in ext {
            let mut syms: HashSet<char> = e.iter().cloned().collect();
            let mut want = vec![];
            interp(p, &mut syms, &mut want);
            rep.case(true, || format!("{:?} :: {}", e, text.replace('\n', " | ")));
            match survivors(&[&text], e) {
                Err(m) => rep.counterexample(&format!("-D{e:?}\n{text}"), &format!("{want:?}"), &m),
                Ok(got) => if got[0] != want { rep.counterexample(&format!("-D{e:?}\n{text}"), &format!("{want:?}"), &format!("{:?}", got[0])); },
            }
        }
    }
    // isolation: #define / #undef take effect only within their own file
    let first = ["#define A\nstruct S1 {}\n", "#undef B\nstruct S1 {}\n", "#if A\n#define B\n#endif\nstruct S1 {}\n"];
    let second = "#if A\nstruct S2 {}\n#endif\n#if B\nstruct S3 {}\n#else\nstruct S4 {}\n#endif\n";
    for f in first {
        for e in ext {
            let syms: HashSet<char> = e.iter().cloned().collect();
            let mut want2 = vec![];
            if syms.contains(&'A') { want2.push(2); }
            if syms.contains(&'B') { want2.push(3); } else { want2.push(4); }
            rep.case(true, || format!("two files {:?}", e));
            match survivors(&[f, second], e) {
                Err(m) => rep.counterexample(&format!("-D{e:?} file1={f:?} file2={second:?}"), &format!("file2 -> {want2:?}"), &m),
                Ok(got) => if got.len() != 2 || got[1] != want2 { rep.counterexample(&format!("-D{e:?} file1={f:?} file2={second:?}"), &format!("file2 -> {want2:?}"), &format!("{got:?}")); },
            }
        }
    }
    rep.finish()
}
