//! C06 bounded stand-in: enumerated preprocessor programs (directives + one-line definitions),
//! compiled by the REAL compiler; the set of definitions that survive is compared with this oracle,
//! the executable twin of specs/preproc_sem.rs (written from the property statement).
use crate::Report;
use slicec::slice_options::SliceOptions;
use std::collections::HashSet;

#[derive(Clone, Debug)]
enum Item {
    Def(usize),                       // struct S<i> {}
    Define(char),
    Undef(char),
    If(Vec<(Cond, Vec<Item>)>, Option<Vec<Item>>), // if / elif*  + else
}
#[derive(Clone, Copy, Debug)]
enum Cond { A, NotA, B, AandB, AorB, NotAorB }
impl Cond {
    fn text(self) -> &'static str {
        match self { Cond::A => "A", Cond::NotA => "!A", Cond::B => "B", Cond::AandB => "A && B", Cond::AorB => "A || B", Cond::NotAorB => "!A || B" }
    }
    fn eval(self, s: &HashSet<char>) -> bool {
        let (a, b) = (s.contains(&'A'), s.contains(&'B'));
        match self { Cond::A => a, Cond::NotA => !a, Cond::B => b, Cond::AandB => a && b, Cond::AorB => a || b, Cond::NotAorB => !a || b }
    }
}

fn render(items: &[Item], out: &mut String) {
    for it in items {
        match it {
            Item::Def(i) => out.push_str(&format!("struct S{i} {{}}\n")),
            Item::Define(c) => out.push_str(&format!("#define {c}\n")),
            Item::Undef(c) => out.push_str(&format!("#undef {c}\n")),
            Item::If(secs, els) => {
                for (k, (c, body)) in secs.iter().enumerate() {
                    out.push_str(&format!("{} {}\n", if k == 0 { "#if" } else { "#elif" }, c.text()));
                    render(body, out);
                }
                if let Some(body) = els { out.push_str("#else\n"); render(body, out); }
                out.push_str("#endif\n");
            }
        }
    }
}

/// the oracle: which definitions are selected, and the symbol set afterwards
fn interp(items: &[Item], syms: &mut HashSet<char>, out: &mut Vec<usize>) {
    for it in items {
        match it {
            Item::Def(i) => out.push(*i),
            Item::Define(c) => { syms.insert(*c); }
            Item::Undef(c) => { syms.remove(c); }
            Item::If(secs, els) => {
                // the FIRST section whose condition holds; later conditions are not consulted
                let mut taken = false;
                for (c, body) in secs {
                    if c.eval(syms) { interp(body, syms, out); taken = true; break; }
                }
                if !taken { if let Some(body) = els { interp(body, syms, out); } }
            }
        }
    }
}

/// block number `k` of a small family; definitions get FRESH numbers on every call so that every
/// survivor is identifiable and no program redefines a name
fn block(k: usize, next_def: &mut usize) -> Vec<Item> {
    let mut d = || { *next_def += 1; Item::Def(*next_def) };
    match k {
        0 => vec![],
        1 => vec![d()],
        2 => vec![Item::Define('A'), d()],
        3 => vec![Item::Undef('A'), d()],
        4 => vec![d(), Item::Define('B')],
        5 => { let (i1, i2, t) = (vec![d()], vec![Item::Define('B'), d()], d()); vec![Item::If(vec![(Cond::A, i1)], Some(i2)), t] }
        6 => { let (i1, i2, t) = (vec![d()], vec![Item::Define('B'), d()], d()); vec![Item::If(vec![(Cond::NotA, i1)], Some(i2)), t] }
        _ => { let (i1, i2, t) = (vec![Item::Undef('B'), d()], vec![d()], d()); vec![Item::If(vec![(Cond::AorB, i1)], Some(i2)), t] }
    }
}

fn survivors(text: &[&str], defined: &[char]) -> Result<Vec<Vec<usize>>, String> {
    let mut options = SliceOptions::default();
    options.defined_symbols = defined.iter().map(|c| c.to_string()).collect();
    let texts: Vec<String> = text.iter().map(|t| format!("module M\n{t}")).collect();
    let refs: Vec<&str> = texts.iter().map(|s| s.as_str()).collect();
    let r = std::panic::catch_unwind(|| {
        let state = slicec::compile_from_strings(&refs, Some(&options));
        if state.diagnostics.has_errors() { return Err("unexpected error diagnostics".to_owned()); }
        let mut per_file = vec![];
        for f in &state.files {
            let mut v = vec![];
            for d in &f.contents {
                if let slicec::grammar::Definition::Struct(s) = d {
                    use slicec::grammar::NamedSymbol;
                    v.push(s.borrow().identifier()[1..].parse::<usize>().unwrap_or(0));
                }
            }
            per_file.push(v);
        }
        Ok(per_file)
    });
    match r { Err(_) => Err("PANIC".to_owned()), Ok(x) => x }
}

pub fn run() -> i32 {
    let mut rep = Report::new("preproc", "conditionals with <= 3 sections (if/elif/elif) + optional else over 6 conditions, bodies from a family of 8 blocks incl. one nested level, and every subset of the sections EMPTY, x 4 external symbol sets; two-file isolation: first file = every sequence of <= 3 #define/#undef over 3 symbols; 56 malformed / unbalanced directive forms (every operator spelling over {&,|} of length <= 3) and 5 well-formed controls x 3 symbol sets; positions: 3 directive indentations x 4 x 4 line indentations x 2 symbol sets, every surviving struct / field identifier and one diagnostic at its original line and column");
    let conds = [Cond::A, Cond::NotA, Cond::B, Cond::AandB, Cond::AorB, Cond::NotAorB];
    let ext: [&[char]; 4] = [&[], &['A'], &['B'], &['A', 'B']];
    let mut programs: Vec<Vec<Item>> = vec![];
    // prefix block ; if c1 {b1} [elif c2 {b2}] [elif c3 {b3}] [else {b4}] ; trailing definition
    for pre in [0usize, 2, 3] {
        for (i1, c1) in conds.iter().enumerate() {
            for b1 in [1usize, 2, 3, 5] {
                for nelif in 0..=2usize {
                    for (i2, c2) in conds.iter().enumerate() {
                        if nelif == 0 && i2 > 0 { continue; }
                        for c3 in [Cond::B, Cond::AorB] {
                            if nelif < 2 && !matches!(c3, Cond::B) { continue; }
                            for els in [None, Some(4usize), Some(1)] {
                                let mut n = 0usize;
                                let mut secs = vec![(*c1, block(b1, &mut n))];
                                if nelif >= 1 { secs.push((*c2, block((i1 + i2) % 4 + 1, &mut n))); }
                                if nelif >= 2 { secs.push((c3, block(6, &mut n))); }
                                let mut p = block(pre, &mut n);
                                let e = els.map(|k| block(k, &mut n));
                                p.push(Item::If(secs, e));
                                p.push(Item::Def(900));
                                p.push(Item::If(vec![(Cond::B, vec![Item::Def(901)])], Some(vec![Item::Def(902)])));
                                programs.push(p);
                            }
                        }
                    }
                }
            }
        }
    }
    // sections with EMPTY bodies (a directive immediately followed by the next one): every subset of the sections of an
    // if / elif / elif [/ else] is emptied; an empty section that is selected still ends the search
    for (i1, c1) in conds.iter().enumerate() {
        for (i2, c2) in conds.iter().enumerate() {
            for c3 in [Cond::B, Cond::AorB, Cond::NotA] {
                for nelif in 1..=2usize {
                    for els in [false, true] {
                        for empty in 1u32..(1 << (nelif + 1 + els as usize)) {
                            let mut n = 0usize;
                            let mut body = |k: u32, n: &mut usize| if empty & (1 << k) != 0 { vec![] } else { block(1 + ((i1 + i2 + k as usize) % 2) * 3, n) };
                            let mut secs = vec![(*c1, body(0, &mut n)), (*c2, body(1, &mut n))];
                            if nelif == 2 { secs.push((c3, body(2, &mut n))); }
                            let e = if els { Some(body(nelif as u32 + 1, &mut n)) } else { None };
                            let mut p = vec![Item::If(secs, e), Item::Def(900)];
                            p.push(Item::If(vec![(Cond::B, vec![Item::Def(901)])], Some(vec![Item::Def(902)])));
                            programs.push(p);
                        }
                    }
                }
            }
        }
    }
    for p in &programs {
        let mut text = String::new();
        render(p, &mut text);
        for e in ext {
            let mut syms: HashSet<char> = e.iter().cloned().collect();
            let mut want = vec![];
            interp(p, &mut syms, &mut want);
            rep.case(true, || format!("{:?} :: {}", e, text.replace('\n', " | ")));
            match survivors(&[&text], e) {
                Err(m) => rep.counterexample(&format!("-D{e:?}\n{text}"), &format!("{want:?}"), &m),
                Ok(got) => if got[0] != want { rep.counterexample(&format!("-D{e:?}\n{text}"), &format!("{want:?}"), &format!("{:?}", got[0])); },
            }
        }
    }
    // isolation: #define / #undef take effect only within their own file. First file: EVERY sequence of <= 3 directives over
    // {#define, #undef} x {A, B, C} (so also the balanced ones that leave the NUMBER of symbols unchanged); the second file
    // must see exactly the external symbols
    let second = "#if A\nstruct S2 {}\n#endif\n#if B\nstruct S3 {}\n#else\nstruct S4 {}\n#endif\n#if C\nstruct S5 {}\n#endif\n";
    let dirs: Vec<String> = ["#define", "#undef"].iter().flat_map(|d| ['A', 'B', 'C'].iter().map(move |c| format!("{d} {c}\n"))).collect();
    let mut firsts: Vec<String> = vec!["#if A\n#define B\n#endif\n".to_owned(), "#if !A\n#undef B\n#define C\n#endif\n".to_owned()];
    for a in &dirs { firsts.push(a.clone()); for b in &dirs { firsts.push(format!("{a}{b}")); for c in &dirs { firsts.push(format!("{a}{b}{c}")); } } }
    for f in &firsts {
        let f = format!("{f}struct S1 {{}}\n");
        for e in ext {
            let syms: HashSet<char> = e.iter().cloned().collect();
            let mut want2 = vec![];
            if syms.contains(&'A') { want2.push(2); }
            if syms.contains(&'B') { want2.push(3); } else { want2.push(4); }
            rep.case(true, || format!("two files {:?} first {:?}", e, f));
            match survivors(&[&f, second], e) {
                Err(m) => rep.counterexample(&format!("-D{e:?} file1={f:?} file2={second:?}"), &format!("file2 -> {want2:?}"), &m),
                Ok(got) => if got.len() != 2 || got[1] != want2 { rep.counterexample(&format!("-D{e:?} file1={f:?} file2={second:?}"), &format!("file2 -> {want2:?} (only the symbols given on the command line)"), &format!("{got:?}")); },
            }
        }
    }
    // malformed or unbalanced directives are reported as syntax errors, not silently ignored; the well-formed controls are accepted
    // (slicec's dialect allows `!` only in front of a whole expression or a parenthesised term: `A && !B` is itself a syntax error,
    // `A && (!B)` is the accepted spelling -- DESIGN.md section 8, observations)
    let mut forms: Vec<(String, bool)> = vec![];
    for op in ["&", "|", "&&", "||", "&|", "|&", "&&&", "|||", "&&|", "||&", "&||", "|&&", "&|&", "|&|"] {
        forms.push((format!("#if A {op} B\nstruct S1 {{}}\n#endif\n"), op == "&&" || op == "||"));
        forms.push((format!("#if A\n#elif (A {op} (!B))\nstruct S1 {{}}\n#endif\n"), op == "&&" || op == "||"));
    }
    for (t, ok) in [
        ("#if\n#endif\n", false), ("#if !\n#endif\n", false), ("#if A B\n#endif\n", false), ("#if (A\n#endif\n", false), ("#if A)\n#endif\n", false),
        ("#if A &&\n#endif\n", false), ("#if && A\n#endif\n", false), ("#if A || || B\n#endif\n", false), ("#if ()\n#endif\n", false),
        ("#elif A\n#endif\n", false), ("#else\n#endif\n", false), ("#endif\n", false), ("#if A\n", false), ("#if A\n#else\n#else\n#endif\n", false),
        ("#if A\n#else\n#elif B\n#endif\n", false), ("#define\n", false), ("#define A B\n", false), ("#undef\n", false), ("#foo\n", false), ("#if A\n#endif B\n", false),
        ("#else A\n", false), ("#if 1\n#endif\n", false), ("#if A &&\n B\n#endif\n", false),
        ("#if A\n#endif\n", true), ("#if !(A || B) && (!A)\n#endif\n", true), ("  #  if A // c\n#   endif\n", true), ("#define A\n#undef A\n", true), ("#if A\n#elif B\n#else\n#endif\n", true),
    ] { forms.push((t.to_owned(), ok)); }
    for (t, ok) in &forms {
        for e in [&[][..], &['A'][..], &['A', 'B'][..]] {
            let text = format!("module M\n{t}struct Z {{}}\n");
            let mut options = SliceOptions::default();
            options.defined_symbols = e.iter().map(|c| c.to_string()).collect();
            rep.case(!ok, || format!("{:?} -D{:?}", t, e));
            let t2 = text.clone();
            match std::panic::catch_unwind(move || slicec::compile_from_strings(&[&t2], Some(&options)).diagnostics.has_errors()) {
                Err(_) => rep.counterexample(&format!("-D{e:?} {text:?}"), "a verdict", "PANIC"),
                Ok(errs) => if errs == *ok { rep.counterexample(&format!("-D{e:?} {text:?}"), if *ok { "accepted: the directives are well-formed" } else { "a syntax error: the directive is malformed or unbalanced" }, if errs { "rejected" } else { "accepted silently" }); },
            }
        }
    }
    // ---- nothing shifts: every surviving identifier, and a diagnostic in a selected region, is at its ORIGINAL line and column --
    //      directives and the lines after them indented differently; selected and unselected sections of different lengths
    {
        let dir_indents = ["", "  ", "\t"];
        let line_indents = ["", "    ", "\t", " \t "];
        for di in dir_indents {
            for li in line_indents {
                for li2 in line_indents {
                    for e in [&[][..], &['A'][..]] {
                        let text = format!("module M\n{di}#if A\n{li}struct InA {{ a: bool }}\n{li2}struct InA2 {{}}\n{di}#else\n{li2}struct NotA {{\n{li}b: bool\n}}\n{di}#endif\n{li}struct After {{ c: Missing, d: bool }}\n{di}#if !A\n{di}#define B\n{di}#endif\n{li2}  struct Last {{ e: bool }}\n");
                        let label = format!("positions: -D{e:?} {text:?}");
                        rep.case(true, || label.clone());
                        let mut options = SliceOptions::default();
                        options.defined_symbols = e.iter().map(|c| c.to_string()).collect();
                        let t2 = text.clone();
                        let out = std::panic::catch_unwind(move || {
                            use slicec::grammar::{NamedSymbol, Symbol};
                            let state = slicec::compile_from_strings(&[&t2], Some(&options));
                            let mut problems = vec![];
                            let mut names = vec![];
                            for d in &state.files[0].contents {
                                if let slicec::grammar::Definition::Struct(s) = d {
                                    let s = s.borrow();
                                    names.push(s.identifier().to_owned());
                                    if crate::oracle_spans::text_at(&t2, s.raw_identifier().span()).as_deref() != Some(s.identifier()) { problems.push(format!("struct {}: the text at its identifier's span is {:?}", s.identifier(), crate::oracle_spans::text_at(&t2, s.raw_identifier().span()))); }
                                    if !crate::oracle_spans::text_at(&t2, s.span()).is_some_and(|t| t.starts_with("struct ")) { problems.push(format!("struct {}: the text at its span is {:?}", s.identifier(), crate::oracle_spans::text_at(&t2, s.span()))); }
                                    for f in s.fields() {
                                        if crate::oracle_spans::text_at(&t2, f.raw_identifier().span()).as_deref() != Some(f.identifier()) { problems.push(format!("field {}: the text at its identifier's span is {:?}", f.identifier(), crate::oracle_spans::text_at(&t2, f.raw_identifier().span()))); }
                                    }
                                }
                            }
                            let diags: Vec<(String, Option<String>)> = state.diagnostics.into_inner().iter().map(|d| (d.code().to_owned(), d.span().and_then(|sp| crate::oracle_spans::text_at(&t2, sp)))).collect();
                            (names, problems, diags)
                        });
                        match out {
                            Err(_) => rep.counterexample(&label, "an AST", "PANIC"),
                            Ok((names, problems, diags)) => {
                                let want: Vec<&str> = if e.contains(&'A') { vec!["InA", "InA2", "After", "Last"] } else { vec!["NotA", "After", "Last"] };
                                if names != want { rep.counterexample(&label, &format!("{want:?}"), &format!("{names:?}")); }
                                else if !problems.is_empty() { rep.counterexample(&label, "every surviving element at its original line and column", &problems.join("; ")); }
                                else if !(diags.len() == 1 && diags[0].1.as_deref().is_some_and(|t| t.contains("Missing") && !t.contains('\n'))) { rep.counterexample(&label, "one error whose span covers `Missing` on its own line", &format!("{diags:?}")); }
                            }
                        }
                    }
                }
            }
        }
    }
    rep.finish()
}
