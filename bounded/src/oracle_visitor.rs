//! C20 bounded stand-in: a corpus of programs; the REAL `visit_with` traversal, observed by a
//! recording visitor, is compared with this oracle (the executable twin of specs/traversal_sem.rs):
//! file, module, definitions in source order; containers before contents; each type right after
//! its owner followed by its nested element / key, value / success, failure types to any depth.
use crate::Report;
use slicec::grammar::*;
use slicec::slice_file::{SliceFile, Span};
use slicec::visitor::Visitor;

type Ev = (&'static str, usize, usize, usize, usize);
fn ev(kind: &'static str, s: &Span) -> Ev { (kind, s.start.row, s.start.col, s.end.row, s.end.col) }

#[derive(Default)]
struct Rec { t: Vec<Ev> }
impl Visitor for Rec {
    fn visit_file(&mut self, _f: &SliceFile) { self.t.push(("file", 0, 0, 0, 0)); }
    fn visit_module(&mut self, x: &Module) { self.t.push(ev("module", x.span())); }
    fn visit_struct(&mut self, x: &Struct) { self.t.push(ev("struct", x.span())); }
    fn visit_interface(&mut self, x: &Interface) { self.t.push(ev("interface", x.span())); }
    fn visit_enum(&mut self, x: &Enum) { self.t.push(ev("enum", x.span())); }
    fn visit_operation(&mut self, x: &Operation) { self.t.push(ev("operation", x.span())); }
    fn visit_custom_type(&mut self, x: &CustomType) { self.t.push(ev("custom", x.span())); }
    fn visit_type_alias(&mut self, x: &TypeAlias) { self.t.push(ev("alias", x.span())); }
    fn visit_field(&mut self, x: &Field) { self.t.push(ev("field", x.span())); }
    fn visit_parameter(&mut self, x: &Parameter) { self.t.push(ev("parameter", x.span())); }
    fn visit_enumerator(&mut self, x: &Enumerator) { self.t.push(ev("enumerator", x.span())); }
    fn visit_type_ref(&mut self, x: &TypeRef) { self.t.push(ev("typeref", x.span())); }
}

/// records (kind, file, row, col) of everything it is shown
#[derive(Default)]
struct RecFile { t: Vec<(String, String, usize, usize)> }
impl RecFile { fn p(&mut self, k: &str, s: &slicec::slice_file::Span) { self.t.push((k.to_owned(), s.file.clone(), s.start.row, s.start.col)); } }
impl Visitor for RecFile {
    fn visit_file(&mut self, _: &SliceFile) {}
    fn visit_module(&mut self, x: &Module) { self.p("module", x.span()); }
    fn visit_struct(&mut self, x: &Struct) { self.p("struct", x.span()); }
    fn visit_interface(&mut self, x: &Interface) { self.p("interface", x.span()); }
    fn visit_enum(&mut self, x: &Enum) { self.p("enum", x.span()); }
    fn visit_operation(&mut self, x: &Operation) { self.p("operation", x.span()); }
    fn visit_custom_type(&mut self, x: &CustomType) { self.p("custom", x.span()); }
    fn visit_type_alias(&mut self, x: &TypeAlias) { self.p("alias", x.span()); }
    fn visit_field(&mut self, x: &Field) { self.p("field", x.span()); }
    fn visit_parameter(&mut self, x: &Parameter) { self.p("parameter", x.span()); }
    fn visit_enumerator(&mut self, x: &Enumerator) { self.p("enumerator", x.span()); }
    fn visit_type_ref(&mut self, x: &TypeRef) { self.p("typeref", x.span()); }
}

fn o_typeref(t: &TypeRef, out: &mut Vec<Ev>) {
    out.push(ev("typeref", t.span()));
    if matches!(&t.definition, TypeRefDefinition::Unpatched(_)) { return; }
    if t.is_named_reference { return; } // what an alias stands for was written (and is presented) at the alias
    match t.concrete_type() {
        Types::ResultType(r) => { o_typeref(&r.success_type, out); o_typeref(&r.failure_type, out); }
        Types::Sequence(s) => o_typeref(&s.element_type, out),
        Types::Dictionary(d) => { o_typeref(&d.key_type, out); o_typeref(&d.value_type, out); }
        _ => {}
    }
}
fn o_field(f: &Field, out: &mut Vec<Ev>) { out.push(ev("field", f.span())); o_typeref(&f.data_type, out); }
fn o_param(p: &Parameter, out: &mut Vec<Ev>) { out.push(ev("parameter", p.span())); o_typeref(&p.data_type, out); }

fn oracle(f: &SliceFile) -> Vec<Ev> {
    let mut out = vec![("file", 0, 0, 0, 0)];
    if let Some(m) = &f.module { out.push(ev("module", m.borrow().span())); }
    for d in &f.contents {
        match d {
            Definition::Struct(s) => { let s = s.borrow(); out.push(ev("struct", s.span())); for x in &s.fields { o_field(x.borrow(), &mut out); } }
            Definition::Interface(i) => {
                let i = i.borrow();
                out.push(ev("interface", i.span()));
                for o in &i.operations {       // the interface's OWN operations, exactly once
                    let o = o.borrow();
                    out.push(ev("operation", o.span()));
                    for p in &o.parameters { o_param(p.borrow(), &mut out); }
                    for p in &o.return_type { o_param(p.borrow(), &mut out); }
                }
            }
            Definition::Enum(e) => {
                let e = e.borrow();
                out.push(ev("enum", e.span()));
                for en in &e.enumerators {
                    let en = en.borrow();
                    out.push(ev("enumerator", en.span()));
                    if let Some(fs) = &en.fields { for x in fs { o_field(x.borrow(), &mut out); } }
                }
            }
            Definition::CustomType(c) => out.push(ev("custom", c.borrow().span())),
            Definition::TypeAlias(a) => { let a = a.borrow(); out.push(ev("alias", a.span())); o_typeref(&a.underlying, &mut out); }
        }
    }
    out
}

pub fn run() -> i32 {
    let mut rep = Report::new("visitor", "corpus of 10 programs (single and two-file) covering every element kind, inheritance, nested sequence/dictionary/result types to depth 3, against the model order; 4 programs with anonymous types shared through aliases: nothing presented twice, nothing from another file");
    let corpus: Vec<Vec<&str>> = vec![
        vec!["module M\nstruct A { a: int32, b: Sequence<string>?, c: Dictionary<int32, Sequence<bool>> }\n"],
        vec!["module M\ninterface I { op(a: int32, b: Sequence<Sequence<uint8>>) -> (x: string, y: Dictionary<string, Result<int32, string>>) \n op2() }\n"],
        vec!["module M\ninterface Base { b1(x: bool) -> string \n b2() }\ninterface Mid : Base { m1(y: Sequence<int32>) }\ninterface Leaf : Mid { l1() -> Result<Sequence<int32>, Dictionary<string, Sequence<bool>>> }\n"],
        vec!["module M\nenum E { A, B(x: int32, y: Sequence<string>), C(z: Result<bool, Sequence<Dictionary<int32, string>>>) }\nunchecked enum F : uint8 { P = 1, Q }\n"],
        vec!["module M\ncustom C\ntypealias T = Sequence<Dictionary<string, Sequence<C>>>\nstruct S { t: T, u: Result<T, Result<C, string>> }\n"],
        vec!["module M\ncompact struct K { a: int32 }\nstruct Tagged { tag(1) a: int32?, tag(2) b: Sequence<K>? }\n"],
        vec!["module A\ninterface Base { op(a: Sequence<int32>) }\n", "module B\ninterface Derived : A::Base { own(d: Dictionary<string, Sequence<string>>) -> Result<string, Sequence<bool>> }\n"],
        vec!["module A::B\nstruct Inner { x: Result<Result<int32, string>, Dictionary<int32, Result<bool, string>>> }\n"],
        vec!["module M\ninterface I { s(x: int32, y: stream Sequence<uint8>) -> stream string }\n"],
        vec!["module M\nstruct Empty {}\ninterface None {}\n"],
    ];
    for prog in &corpus {
        let r = std::panic::catch_unwind(|| {
            let state = slicec::compile_from_strings(prog, None);
            if state.diagnostics.has_errors() { return Err("corpus program does not compile".to_owned()); }
            let mut res = vec![];
            for f in &state.files {
                let mut rec = Rec::default();
                f.visit_with(&mut rec);
                res.push((rec.t, oracle(f)));
            }
            Ok(res)
        });
        match r {
            Err(_) => rep.counterexample(&format!("{prog:?}"), "a traversal", "PANIC"),
            Ok(Err(m)) => rep.counterexample(&format!("{prog:?}"), "compiles", &m),
            Ok(Ok(res)) => for (k, (got, want)) in res.iter().enumerate() {
                rep.case(want.len() > 3, || format!("file {k} of {prog:?}: {} events", want.len()));
                if got != want { rep.counterexample(&format!("file {k} of {prog:?}"), &format!("{want:?}"), &format!("{got:?}")); }
            },
        }
    }
    // ---- "Nothing is presented twice ... and nothing from another file is presented", checked on the events themselves (not against the
    //      model above, which walks type references the way the code does): every (kind, location) at most once; every location lies in
    //      the walked file. Programs where an anonymous type is SHARED through an alias (used twice; defined in another file).
    let shared: Vec<Vec<&str>> = vec![
        vec!["module M\ntypealias T = Sequence<bool>\nstruct S { a: T, b: T }\n"],
        vec!["module M\ntypealias T = Dictionary<string, Sequence<int32>>\ninterface I { op(p: T) -> T }\n"],
        vec!["module A\ntypealias T = Sequence<bool>\n", "module B\nstruct S { a: A::T }\n"],
        vec!["module M\nstruct S { a: Sequence<bool>, b: Sequence<bool> }\n"],
        // the alias used as an OPTIONAL type, inside a type written in place, through a second alias, with a `::`-global name
        vec!["module M\ntypealias T = Sequence<int32>\nstruct S { a: T?, b: Sequence<T>, c: Dictionary<string, T?> }\ninterface I { op(p: T?) -> T? }\n"],
        vec!["module A\ntypealias T = Result<string, Sequence<bool>>\ntypealias U = T\ntypealias V = ::A::U\n", "module B\nstruct S { a: A::U?, b: ::A::V, c: Sequence<A::V?> }\n"],
    ];
    for prog in &shared {
        let r = std::panic::catch_unwind(|| {
            let state = slicec::compile_from_strings(prog, None);
            if state.diagnostics.has_errors() { return Err("corpus program does not compile".to_owned()); }
            let mut res = vec![];
            for f in &state.files {
                let mut rec = RecFile::default();
                f.visit_with(&mut rec);
                res.push((f.relative_path.clone(), rec.t));
            }
            Ok(res)
        });
        match r {
            Err(_) => rep.counterexample(&format!("{prog:?}"), "a traversal", "PANIC"),
            Ok(Err(m)) => rep.counterexample(&format!("{prog:?}"), "compiles", &m),
            Ok(Ok(res)) => for (k, (path, evs)) in res.iter().enumerate() {
                rep.case(true, || format!("shared anonymous types: file {k} of {prog:?}"));
                let mut seen = std::collections::HashSet::new();
                let twice: Vec<String> = evs.iter().filter(|e| !seen.insert((*e).clone())).map(|e| format!("{} at {}:{}:{}", e.0, e.1, e.2, e.3)).collect();
                let foreign: Vec<String> = evs.iter().filter(|e| !e.1.is_empty() && &e.1 != path).map(|e| format!("{} at {}:{}:{}", e.0, e.1, e.2, e.3)).collect();
                if !twice.is_empty() || !foreign.is_empty() { rep.counterexample(&format!("file {k} ({path}) of {prog:?}"), "nothing presented twice, nothing from another file", &format!("presented again: {twice:?}; from another file: {foreign:?}")); }
            },
        }
    }
    rep.finish()
}
