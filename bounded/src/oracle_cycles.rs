//! C05 (bounded stand-in): illegal cycles are always diagnosed, acyclic definitions never are.
//!
//! Oracle, written from the property's sentence: the definitions of a program form a graph (type i -> type j
//! when a field of i -- for an enum, a field of one of its enumerators -- mentions j, plainly or through an
//! optional, a sequence, a dictionary key or value, a result's success or failure type, or a type alias).
//!  * an infinite-size error (E032) is reported exactly when some struct/enum lies on a cycle;
//!  * every type on a cycle is named by a reported cycle, and the type a report blames is on a cycle;
//!  * every reported chain `A -> B -> ... -> A` is a closed walk whose every step is an edge of the graph, and
//!    every note names a field that exists in the named container;
//!  * alias definitions that loop back on themselves and interfaces that inherit from themselves are rejected
//!    (some error), acyclic ones are accepted;
//!  * none of these inputs crashes or hangs a later phase (every program is compiled, validated and its
//!    diagnostics rendered in a CHILD process with a watchdog; a child that dies or stalls is a counterexample).
use crate::Report;
use slicec::slice_options::SliceOptions;
use std::io::Write;

const WRAPPERS: [&str; 10] = [
    "@", "@?", "Sequence<@>", "Dictionary<int32, @>", "Dictionary<@, int32>", "Result<@, bool>", "Result<bool, @>",
    "Sequence<Sequence<@>>", "Dictionary<int32, Sequence<@?>>", "ALIAS",
];

struct Program {
    text: String,
    label: String,
    kind: Kind,
}
enum Kind {
    /// struct/enum graph: edges[i] = successors of Ti; fields[i] = (container kind word, field names)
    Types { n: usize, edges: Vec<Vec<usize>>, fields: Vec<Vec<(String, usize)>> },
    /// alias graph or interface graph: must be rejected iff `cyclic`
    Reject { cyclic: bool, what: &'static str },
}

fn mix(a: usize, b: usize, c: usize) -> usize {
    let mut h = (a as u64).wrapping_mul(0x9E37_79B9_7F4A_7C15) ^ (b as u64).wrapping_mul(0xC2B2_AE3D_27D4_EB4F) ^ (c as u64).wrapping_mul(0x1656_67B1_9E37_79F9);
    h ^= h >> 29;
    h = h.wrapping_mul(0xBF58_476D_1CE4_E5B9);
    h ^= h >> 32;
    h as usize
}

/// one program of the struct/enum family: `succ[i]` = successor list of Ti, `is_enum[i]`, `wrap(i, k)` = wrapper of Ti's k-th field
fn types_program(succ: &[Vec<usize>], is_enum: &[bool], wrap: &dyn Fn(usize, usize) -> usize, label: String) -> Program {
    let n = succ.len();
    let mut text = String::from("module M\n");
    let mut aliases = String::new();
    let mut fields_out = vec![];
    for i in 0..n {
        let mut fs: Vec<String> = vec![];
        let mut fl = vec![];
        for (k, j) in succ[i].iter().enumerate() {
            let w = WRAPPERS[wrap(i, k) % WRAPPERS.len()];
            let ty = if w == "ALIAS" {
                aliases.push_str(&format!("typealias Al{i}x{k} = Sequence<T{j}>\n"));
                format!("Al{i}x{k}")
            } else {
                w.replace('@', &format!("T{j}"))
            };
            fs.push(format!("f{k}: {ty}"));
            fl.push((format!("f{k}"), *j));
        }
        fs.push("pad: bool".to_owned());
        if is_enum[i] {
            // some enums declare an underlying type: fields are then illegal (reported by a LATER phase), the containment is the same
            let under = if wrap(i, 7) % 5 == 0 { " : uint8" } else { "" };
            // alternate between one enumerator holding every field and one enumerator per field
            if (i + succ[i].len()) % 2 == 0 {
                text.push_str(&format!("enum T{i}{under} {{ A({}) }}\n", fs.join(", ")));
            } else {
                let es: Vec<String> = fs.iter().enumerate().map(|(k, f)| format!("E{k}({f})")).collect();
                text.push_str(&format!("enum T{i}{under} {{ {} }}\n", es.join(", ")));
            }
        } else {
            // some structs are compact: only those can be dictionary keys, so that the key validation (a LATER, recursive phase) walks into them
            let compact = if wrap(i, 5) % 3 == 0 { "compact " } else { "" };
            text.push_str(&format!("{compact}struct T{i} {{ {} }}\n", fs.join(", ")));
        }
        fields_out.push(fl);
    }
    text.push_str(&aliases);
    Program { text, label, kind: Kind::Types { n, edges: succ.to_vec(), fields: fields_out } }
}

fn subsets_upto2(n: usize) -> Vec<Vec<usize>> {
    let mut out = vec![vec![]];
    for a in 0..n {
        out.push(vec![a]);
    }
    for a in 0..n {
        for b in 0..n {
            if a != b {
                out.push(vec![a, b]);
            }
        }
    }
    out
}

fn programs(deep: bool) -> Vec<Program> {
    let mut ps = vec![];
    // ---- family A3: every graph over 3 types with out-degree <= 2 (ordered successor lists), every struct/enum
    //      assignment, wrapper per edge drawn from a fixed hash (all ten forms occur) --------------------------
    let subs = subsets_upto2(3);
    for (a, s0) in subs.iter().enumerate() {
        for (b, s1) in subs.iter().enumerate() {
            for (c, s2) in subs.iter().enumerate() {
                let k1 = mix(a, b, c) % 8;
                let kinds: Vec<usize> = if deep { (0..8).collect() } else { vec![k1, (k1 + 1 + (mix(a, b, c) / 8) % 7) % 8] };
                for kinds in kinds {
                    let succ = vec![s0.clone(), s1.clone(), s2.clone()];
                    let is_enum = [kinds & 1 != 0, kinds & 2 != 0, kinds & 4 != 0];
                    let seed = mix(a * 100 + b, c, kinds);
                    ps.push(types_program(&succ, &is_enum, &move |i, k| mix(seed, i, k), format!("A3 graph {succ:?} enums {is_enum:?}")));
                }
            }
        }
    }
    // ---- family A4 (deep mode only): every graph over 4 types with out-degree <= 2, one struct/enum assignment and wrapper draw each ----
    if deep {
        let subs4 = subsets_upto2(4);
        for (a, s0) in subs4.iter().enumerate() {
            for (b, s1) in subs4.iter().enumerate() {
                for (c, s2) in subs4.iter().enumerate() {
                    for (d, s3) in subs4.iter().enumerate() {
                        let succ = vec![s0.clone(), s1.clone(), s2.clone(), s3.clone()];
                        let kinds = mix(a * 31 + b, c * 17 + d, 4) % 16;
                        let is_enum = [kinds & 1 != 0, kinds & 2 != 0, kinds & 4 != 0, kinds & 8 != 0];
                        let seed = mix(a * 100 + b, c * 100 + d, kinds);
                        ps.push(types_program(&succ, &is_enum, &move |i, k| mix(seed, i, k), format!("A4 graph {succ:?} enums {is_enum:?}")));
                    }
                }
            }
        }
    }
    // ---- family A2: every graph over 2 types, every kind assignment, EVERY wrapper on every edge (all edges the
    //      same wrapper; deep: every assignment of wrappers to <= 3 edges) -------------------------------------
    let subs2 = subsets_upto2(2);
    for s0 in &subs2 {
        for s1 in &subs2 {
            for kinds in 0..4usize {
                let succ = vec![s0.clone(), s1.clone()];
                let is_enum = [kinds & 1 != 0, kinds & 2 != 0];
                let ne = s0.len() + s1.len();
                for w in 0..WRAPPERS.len() {
                    ps.push(types_program(&succ, &is_enum, &move |_, _| w, format!("A2 graph {succ:?} enums {is_enum:?} wrapper {}", WRAPPERS[w])));
                    for w2 in 0..WRAPPERS.len() {
                        if w2 != w && ne >= 2 {
                            ps.push(types_program(&succ, &is_enum, &move |i, k| if i == 0 && k == 0 { w } else { w2 }, format!("A2 graph {succ:?} enums {is_enum:?} wrappers {}/{}", WRAPPERS[w], WRAPPERS[w2])));
                        }
                    }
                }
                if deep && ne <= 3 {
                    let total = WRAPPERS.len().pow(ne as u32);
                    for code in 0..total {
                        let l0 = s0.len();
                        ps.push(types_program(&succ, &is_enum, &move |i, k| { let idx = if i == 0 { k } else { l0 + k }; (code / WRAPPERS.len().pow(idx as u32)) % WRAPPERS.len() }, format!("A2 graph {succ:?} enums {is_enum:?} wrapper code {code}")));
                    }
                }
            }
        }
    }
    // ---- family B: alias graphs over <= 3 aliases: alias i = W(target), target an alias, bool or a struct -----
    let alias_wrappers = ["@", "Sequence<@>", "Dictionary<int32, @>", "Result<@, bool>", "Result<bool, @>", "Result<@, @>", "Sequence<Result<@, Sequence<@>>>", "Dictionary<@, int32>", "@?"];
    let accept_ok = 7; // wrappers [0, 5) are legal for every target: an acyclic program built from them must be accepted
    for n in 1..=3usize {
        let targets = n + 2; // aliases 0..n, then bool, then struct S
        let total = targets.pow(n as u32);
        for code in 0..total {
            let tg: Vec<usize> = (0..n).map(|i| (code / targets.pow(i as u32)) % targets).collect();
            let wsets: Vec<Vec<usize>> = if deep { (0..alias_wrappers.len().pow(n as u32)).map(|wc| (0..n).map(|i| (wc / alias_wrappers.len().pow(i as u32)) % alias_wrappers.len()).collect()).collect() }
                else { (0..alias_wrappers.len()).map(|w| (0..n).map(|i| (w + i * mix(code, i, n)) % alias_wrappers.len()).collect()).collect() };
            for ws in wsets {
                let mut text = String::from("module M\nstruct S { b: bool }\n");
                for i in 0..n {
                    let t = if tg[i] < n { format!("A{}", tg[i]) } else if tg[i] == n { "bool".to_owned() } else { "S".to_owned() };
                    text.push_str(&format!("typealias A{i} = {}\n", alias_wrappers[ws[i]].replace('@', &t)));
                }
                // use the aliases, so that later phases (validators, comment and attribute checks) walk them
                text.push_str(&format!("struct User {{ {} }}\n", (0..n).map(|i| format!("u{i}: A{i}")).collect::<Vec<_>>().join(", ")));
                // cyclic iff some alias reaches itself
                let mut cyclic = false;
                for s in 0..n {
                    let mut cur = s;
                    for _ in 0..n {
                        if tg[cur] >= n { break; }
                        cur = tg[cur];
                        if cur == s { cyclic = true; }
                    }
                }
                let all_safe = ws.iter().all(|w| *w < accept_ok);
                if cyclic || all_safe {
                    ps.push(Program { label: format!("B aliases {tg:?} wrappers {ws:?}"), text, kind: Kind::Reject { cyclic, what: "alias definitions" } });
                }
            }
        }
    }
    // ---- family C: interface inheritance graphs over <= 3 interfaces (every subset of bases, itself included) ---
    for n in 1..=3usize {
        let per = 1usize << n;
        for code in 0..per.pow(n as u32) {
            let bases: Vec<Vec<usize>> = (0..n).map(|i| { let m = (code / per.pow(i as u32)) % per; (0..n).filter(|j| m & (1 << j) != 0).collect() }).collect();
            let mut text = String::from("module M\n");
            for i in 0..n {
                let b = if bases[i].is_empty() { String::new() } else { format!(" : {}", bases[i].iter().map(|j| format!("I{j}")).collect::<Vec<_>>().join(", ")) };
                text.push_str(&format!("interface I{i}{b} {{ op{i}(p: bool) -> bool }}\n"));
            }
            // reach[i][j]
            let mut cyclic = false;
            for s in 0..n {
                let mut seen = vec![false; n];
                let mut todo: Vec<usize> = bases[s].clone();
                while let Some(x) = todo.pop() {
                    if x == s { cyclic = true; }
                    if !seen[x] { seen[x] = true; todo.extend(bases[x].iter().cloned()); }
                }
            }
            ps.push(Program { label: format!("C interfaces bases {bases:?}"), text, kind: Kind::Reject { cyclic, what: "interface inheritance" } });
            // the same graph over EMPTY interfaces: no operation can be inherited twice, so nothing but the loop itself can reject it
            let mut bare = String::from("module M\n");
            for i in 0..n {
                let b = if bases[i].is_empty() { String::new() } else { format!(" : {}", bases[i].iter().map(|j| format!("I{j}")).collect::<Vec<_>>().join(", ")) };
                bare.push_str(&format!("interface I{i}{b} {{}}\n"));
            }
            ps.push(Program { label: format!("C empty interfaces bases {bases:?}"), text: bare, kind: Kind::Reject { cyclic, what: "interface inheritance" } });
            // ... and with the bases listed in descending order
            if bases.iter().any(|b| b.len() > 1) {
                let mut rev = String::from("module M\n");
                for i in 0..n {
                    let b = if bases[i].is_empty() { String::new() } else { format!(" : {}", bases[i].iter().rev().map(|j| format!("I{j}")).collect::<Vec<_>>().join(", ")) };
                    rev.push_str(&format!("interface I{i}{b} {{}}\n"));
                }
                ps.push(Program { label: format!("C empty interfaces, bases in descending order {bases:?}"), text: rev, kind: Kind::Reject { cyclic, what: "interface inheritance" } });
            }
            // the same graph with every interface called `Svc`, each in its own module (one file per module)
            let mut files = String::new();
            for i in 0..n {
                let b = if bases[i].is_empty() { String::new() } else { format!(" : {}", bases[i].iter().map(|j| format!("::V{j}::Svc")).collect::<Vec<_>>().join(", ")) };
                files.push_str(&format!("module V{i}\ninterface Svc{b} {{ op{i}(p: bool) -> bool }}\n\u{0}"));
            }
            ps.push(Program { label: format!("C same-named interfaces in {n} modules, bases {bases:?}"), text: files, kind: Kind::Reject { cyclic, what: "interface inheritance" } });
        }
    }
    ps
}

/// child: compiles every program of the list (same enumeration as the parent), from index `from`; prints one line per
/// program `R <index> <errors> | code \t message \t note;note | ...`; a watchdog thread ends the process when one program
/// takes more than 5 s (`HANG <index>`)
pub fn child(from: usize) -> i32 {
    let deep = std::env::var("VERIF_BOUNDED_DEEP").is_ok();
    let ps = programs(deep);
    let current = std::sync::Arc::new(std::sync::Mutex::new((from, std::time::Instant::now())));
    let c2 = current.clone();
    std::thread::spawn(move || loop {
        std::thread::sleep(std::time::Duration::from_millis(500));
        let (k, t) = *c2.lock().unwrap();
        if t.elapsed().as_secs() >= 5 {
            println!("HANG {k}");
            let _ = std::io::stdout().flush();
            std::process::exit(3);
        }
    });
    let out = std::io::stdout();
    for (k, p) in ps.iter().enumerate().skip(from) {
        *current.lock().unwrap() = (k, std::time::Instant::now());
        let mut options = SliceOptions::default();
        options.disable_color = true;
        let text = p.text.clone();
        let r = std::panic::catch_unwind(move || {
            let parts: Vec<&str> = text.split('\u{0}').filter(|p| !p.is_empty()).collect();
            let state = slicec::compile_from_strings(&parts, Some(&options));
            let slicec::compilation_state::CompilationState { ast, diagnostics, files } = state;
            let diags = diagnostics.into_updated(&ast, &files, &options);
            let mut line = String::new();
            let mut errors = 0;
            for d in &diags {
                if matches!(d.level(), slicec::diagnostics::DiagnosticLevel::Error) { errors += 1; }
                let notes: Vec<String> = d.notes().iter().map(|n| n.message.replace(['\t', '\n', ';', '|'], " ")).collect();
                line.push_str(&format!(" | {}\t{}\t{}", d.code(), d.message().replace(['\t', '\n', '|'], " "), notes.join(";")));
            }
            // rendering is a later phase too
            let mut sink: Vec<u8> = vec![];
            let mut emitter = slicec::diagnostic_emitter::DiagnosticEmitter::new(&mut sink, &options, &files);
            let _ = emitter.emit_diagnostics(diags);
            format!("R {k} {errors}{line}")
        });
        let mut o = out.lock();
        match r {
            Ok(l) => { let _ = writeln!(o, "{l}"); }
            Err(_) => { let _ = writeln!(o, "P {k} {}", crate::LAST_PANIC.with(|l| l.borrow().clone())); }
        }
        let _ = o.flush();
    }
    0
}

fn ids_of_chain(s: &str) -> Vec<String> {
    s.split(" -> ").map(|x| x.trim().to_owned()).collect()
}

pub fn run() -> i32 {
    let deep = std::env::var("VERIF_BOUNDED_DEEP").is_ok();
    let mut rep = Report::new(
        "cycles",
        if deep {
            "DEEP: every containment graph over 3 structs/enums with out-degree <= 2 x all 8 struct/enum assignments (one of 10 wrapper forms per edge); every graph over 4 types with out-degree <= 2 (83 521 graphs, one assignment each); every graph over 2 types x every wrapper assignment to <= 3 edges; alias graphs over <= 3 aliases x every wrapper assignment; every inheritance graph over <= 3 interfaces (with operations, and over empty interfaces - where nothing but the loop can be rejected - with the bases in both orders); each compiled + validated + rendered in a child process with a 5 s watchdog"
        } else {
            "every containment graph over 3 structs/enums with out-degree <= 2 x 2 struct/enum assignments (one of 10 wrapper forms per edge: plain, optional, sequence, dictionary key/value, result success/failure, nested, alias); every graph over 2 types x 10 wrappers (+ pairs); alias graphs over <= 3 aliases x 7 wrapper rotations; every inheritance graph over <= 3 interfaces (with operations, and over empty interfaces - where nothing but the loop can be rejected - with the bases in both orders); each compiled + validated + rendered in a child process with a 5 s watchdog"
        },
    );
    let ps = programs(deep);
    let exe = std::env::current_exe().unwrap();
    let mut results: Vec<Option<String>> = vec![None; ps.len()];
    let mut from = 0usize;
    let mut restarts = 0;
    while from < ps.len() && restarts < 200 {
        let out = std::process::Command::new(&exe).arg("cycles-child").arg(from.to_string()).output();
        let o = match out { Ok(o) => o, Err(e) => { rep.counterexample("child", "a child process", &format!("cannot run: {e}")); return rep.finish(); } };
        let text = String::from_utf8_lossy(&o.stdout).to_string();
        let mut last = from;
        let mut bad: Option<(usize, String)> = None;
        for l in text.lines() {
            let mut it = l.splitn(3, ' ');
            let tag = it.next().unwrap_or("");
            let k: usize = it.next().unwrap_or("0").parse().unwrap_or(0);
            match tag {
                "R" => { results[k] = Some(it.next().unwrap_or("").to_owned()); last = k + 1; }
                "P" => { results[k] = Some(format!("PANIC {}", it.next().unwrap_or(""))); last = k + 1; }
                "HANG" => { bad = Some((k, "no verdict within 5 s (a phase does not terminate)".to_owned())); }
                _ => {}
            }
        }
        if o.status.success() && bad.is_none() { break; }
        // the child died: the program after the last completed one is the culprit
        let (k, why) = bad.unwrap_or_else(|| {
            let err = String::from_utf8_lossy(&o.stderr);
            (last, if err.contains("overflowed its stack") { "stack overflow".to_owned() } else { format!("child ended with {:?}", o.status) })
        });
        if k < ps.len() { results[k] = Some(format!("ABORT {why}")); }
        from = k + 1;
        restarts += 1;
    }
    for (k, p) in ps.iter().enumerate() {
        let input = format!("{}: {:?}", p.label, p.text);
        let Some(res) = &results[k] else { rep.case(true, || input.clone()); rep.counterexample(&input, "a verdict", "no result from the child process"); continue; };
        if res.starts_with("PANIC") || res.starts_with("ABORT") {
            rep.case(true, || input.clone());
            crate::LAST_PANIC.with(|l| *l.borrow_mut() = res.clone());
            rep.counterexample(&input, "diagnostics and a verdict", "PANIC/ABORT");
            continue;
        }
        let mut parts = res.split(" | ");
        let errors: usize = parts.next().unwrap_or("0").trim().parse().unwrap_or(0);
        let diags: Vec<(String, String, Vec<String>)> = parts.map(|d| { let mut f = d.split('\t'); (f.next().unwrap_or("").to_owned(), f.next().unwrap_or("").to_owned(), f.next().unwrap_or("").split(';').filter(|s| !s.is_empty()).map(|s| s.to_owned()).collect()) }).collect();
        match &p.kind {
            Kind::Reject { cyclic, what } => {
                rep.case(*cyclic, || input.clone());
                if *cyclic && errors == 0 { rep.counterexample(&input, &format!("rejected: the {what} loop back on themselves"), "accepted without an error"); }
                // (which code rejects a loop is not the property's business; the programs over EMPTY interfaces make sure that it is the
                //  loop that is rejected and not an operation a later phase finds inherited twice)
                if !*cyclic && errors > 0 { rep.counterexample(&input, &format!("accepted: the {what} are acyclic"), &format!("{:?}", diags.iter().map(|d| format!("{} {}", d.0, d.1)).collect::<Vec<_>>())); }
            }
            Kind::Types { n, edges, fields } => {
                // reach over >= 1 edge
                let mut on_cycle = vec![false; *n];
                for s in 0..*n {
                    let mut seen = vec![false; *n];
                    let mut todo: Vec<usize> = edges[s].clone();
                    while let Some(x) = todo.pop() {
                        if x == s { on_cycle[s] = true; }
                        if !seen[x] { seen[x] = true; todo.extend(edges[x].iter().cloned()); }
                    }
                }
                let any = on_cycle.iter().any(|b| *b);
                rep.case(any, || input.clone());
                let cyc: Vec<&(String, String, Vec<String>)> = diags.iter().filter(|d| d.0 == "E032").collect();
                if any && cyc.is_empty() { rep.counterexample(&input, &format!("an infinite-size error: types on a cycle = {:?}", (0..*n).filter(|i| on_cycle[*i]).collect::<Vec<_>>()), &format!("none ({} other error(s))", errors)); continue; }
                if !any && !cyc.is_empty() { rep.counterexample(&input, "no infinite-size error: the definitions are acyclic", &cyc[0].1); continue; }
                // other errors before the cycle check would hide it: the family is built from legal constructs only
                let idx = |id: &str| -> Option<usize> { id.strip_prefix("M::T").and_then(|r| r.parse::<usize>().ok()).filter(|i| i < n) };
                let mut named = vec![false; *n];
                let mut bad = None;
                for d in &cyc {
                    // "type M::T0 illegally references itself: M::T0 -> M::T1 -> M::T0"
                    let Some((head, chain)) = d.1.split_once(": ") else { bad = Some(format!("unparsable message {:?}", d.1)); break; };
                    let blamed = head.trim_start_matches("type ").trim_end_matches(" illegally references itself").trim();
                    let ids = ids_of_chain(chain);
                    let vs: Vec<Option<usize>> = ids.iter().map(|i| idx(i)).collect();
                    if vs.iter().any(|v| v.is_none()) || vs.len() < 2 { bad = Some(format!("chain {chain:?} names something that is not a type of the program")); break; }
                    let vs: Vec<usize> = vs.into_iter().map(|v| v.unwrap()).collect();
                    if vs[0] != *vs.last().unwrap() { bad = Some(format!("chain {chain:?} is not closed")); break; }
                    if let Some(w) = vs.windows(2).find(|w| !edges[w[0]].contains(&w[1])) { bad = Some(format!("chain {chain:?}: T{} has no field that mentions T{}", w[0], w[1])); break; }
                    match idx(blamed) { Some(b) if on_cycle[b] && b == vs[0] => {}, _ => { bad = Some(format!("blamed type {blamed:?} is not the start of its chain / not on a cycle")); break; } }
                    for v in &vs { named[*v] = true; }
                    // notes: "struct 'T0' contains a field named 'f0' that is of type '...'", one per step
                    if d.2.len() != vs.len() - 1 { bad = Some(format!("chain {chain:?} has {} steps but {} notes", vs.len() - 1, d.2.len())); break; }
                    for (s, note) in d.2.iter().enumerate() {
                        let q: Vec<&str> = note.split('\'').collect();
                        if q.len() < 6 { bad = Some(format!("unparsable note {note:?}")); break; }
                        let (cont, fld) = (q[1], q[3]);
                        let ok = cont == format!("T{}", vs[s]) && fields[vs[s]].iter().any(|(f, j)| f == fld && *j == vs[s + 1]);
                        if !ok { bad = Some(format!("note {note:?} does not describe a field of T{} that mentions T{}", vs[s], vs[s + 1])); break; }
                    }
                    if bad.is_some() { break; }
                }
                if let Some(b) = bad { rep.counterexample(&input, "every reported chain is a real path of fields, closed at the blamed type", &b); continue; }
                let unnamed: Vec<usize> = (0..*n).filter(|i| on_cycle[*i] && !named[*i]).collect();
                if !unnamed.is_empty() { rep.counterexample(&input, "every type lying on a cycle is named by a reported cycle", &format!("T{:?} on a cycle but in none of {:?}", unnamed, cyc.iter().map(|d| d.1.clone()).collect::<Vec<_>>())); }
            }
        }
    }
    rep.finish()
}
