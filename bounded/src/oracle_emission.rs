//! C14 (bounded stand-in): emitted diagnostics are complete, well-formed and match the totals.
//!
//! Oracle, written from the property's sentence. For a list of diagnostics (synthetic ones over real files and
//! spans: every combination of kind x span x notes x note spans, messages full of characters JSON must escape;
//! and the real diagnostics of a corpus of ill-formed programs, some of them suppressed), after the level
//! rewriting (`into_updated`), the real `DiagnosticEmitter` writes into a byte buffer and:
//!  * JSON: the output is exactly one line per non-suppressed diagnostic, in the recorded order, each a single
//!    self-contained JSON object (parsed by an independent strict parser) with exactly the keys message, severity,
//!    span, notes, error_code and the diagnostic's own values; nothing else is written; no escape sequences;
//!  * human: one `error [CODE]: message` / `warning [CODE]: message` header per non-suppressed diagnostic, in
//!    order; a ` --> file:row:col` line right after it iff it has a span; one `note: message` line per note, in
//!    order, each followed by its own ` --> ` line iff the note has a span; the numbers of error and warning headers
//!    shown equal `get_totals` (what the summary prints); with colours disabled no escape sequence (colours are
//!    forced ON beforehand, so the emitter itself must switch them off);
//!  * suppressed lints leave no trace in either format (their unique message does not occur in the output).
use crate::Report;
use slicec::diagnostics::{Diagnostic, DiagnosticLevel, Diagnostics, Error, Lint};
use slicec::slice_file::{Location, Span};
use slicec::slice_options::{DiagnosticFormat, SliceOptions};

// ---- a strict JSON parser (RFC 8259), independent of serde ----------------------------------------------------
#[derive(Debug, Clone, PartialEq)]
enum J {
    Null,
    Bool(bool),
    Num(f64),
    Str(String),
    Arr(Vec<J>),
    Obj(Vec<(String, J)>),
}
struct P<'a> {
    s: &'a [u8],
    i: usize,
}
impl<'a> P<'a> {
    fn ws(&mut self) {
        while self.i < self.s.len() && matches!(self.s[self.i], b' ' | b'\t' | b'\r') {
            self.i += 1;
        }
    }
    fn lit(&mut self, w: &str) -> Result<(), String> {
        if self.s[self.i..].starts_with(w.as_bytes()) { self.i += w.len(); Ok(()) } else { Err(format!("expected {w} at byte {}", self.i)) }
    }
    fn value(&mut self) -> Result<J, String> {
        self.ws();
        if self.i >= self.s.len() { return Err("unexpected end".into()); }
        match self.s[self.i] {
            b'n' => { self.lit("null")?; Ok(J::Null) }
            b't' => { self.lit("true")?; Ok(J::Bool(true)) }
            b'f' => { self.lit("false")?; Ok(J::Bool(false)) }
            b'"' => Ok(J::Str(self.string()?)),
            b'[' => {
                self.i += 1;
                let mut v = vec![];
                self.ws();
                if self.i < self.s.len() && self.s[self.i] == b']' { self.i += 1; return Ok(J::Arr(v)); }
                loop {
                    v.push(self.value()?);
                    self.ws();
                    match self.s.get(self.i) { Some(b',') => self.i += 1, Some(b']') => { self.i += 1; return Ok(J::Arr(v)); } _ => return Err(format!("expected , or ] at byte {}", self.i)) }
                }
            }
            b'{' => {
                self.i += 1;
                let mut v = vec![];
                self.ws();
                if self.i < self.s.len() && self.s[self.i] == b'}' { self.i += 1; return Ok(J::Obj(v)); }
                loop {
                    self.ws();
                    if self.s.get(self.i) != Some(&b'"') { return Err(format!("expected a key at byte {}", self.i)); }
                    let k = self.string()?;
                    self.ws();
                    if self.s.get(self.i) != Some(&b':') { return Err(format!("expected : at byte {}", self.i)); }
                    self.i += 1;
                    let val = self.value()?;
                    v.push((k, val));
                    self.ws();
                    match self.s.get(self.i) { Some(b',') => self.i += 1, Some(b'}') => { self.i += 1; return Ok(J::Obj(v)); } _ => return Err(format!("expected , or }} at byte {}", self.i)) }
                }
            }
            b'-' | b'0'..=b'9' => {
                let st = self.i;
                while self.i < self.s.len() && matches!(self.s[self.i], b'-' | b'+' | b'.' | b'e' | b'E' | b'0'..=b'9') { self.i += 1; }
                std::str::from_utf8(&self.s[st..self.i]).ok().and_then(|t| t.parse::<f64>().ok()).map(J::Num).ok_or_else(|| format!("bad number at byte {st}"))
            }
            c => Err(format!("unexpected byte {c:#x} at {}", self.i)),
        }
    }
    fn hex4(&mut self) -> Result<u32, String> {
        let t = self.s.get(self.i..self.i + 4).ok_or("short \\u escape")?;
        let v = u32::from_str_radix(std::str::from_utf8(t).map_err(|_| "bad \\u escape")?, 16).map_err(|_| "bad \\u escape".to_owned())?;
        self.i += 4;
        Ok(v)
    }
    fn string(&mut self) -> Result<String, String> {
        self.i += 1;
        let mut out: Vec<u8> = vec![];
        loop {
            let Some(&c) = self.s.get(self.i) else { return Err("unterminated string".into()) };
            self.i += 1;
            match c {
                b'"' => return String::from_utf8(out).map_err(|_| "string is not UTF-8".to_owned()),
                b'\\' => {
                    let Some(&e) = self.s.get(self.i) else { return Err("unterminated escape".into()) };
                    self.i += 1;
                    let ch = match e {
                        b'"' => '"', b'\\' => '\\', b'/' => '/', b'b' => '\u{8}', b'f' => '\u{c}', b'n' => '\n', b'r' => '\r', b't' => '\t',
                        b'u' => {
                            let mut v = self.hex4()?;
                            if (0xD800..0xDC00).contains(&v) {
                                if self.s.get(self.i..self.i + 2) != Some(b"\\u") { return Err("lone surrogate".into()); }
                                self.i += 2;
                                let lo = self.hex4()?;
                                if !(0xDC00..0xE000).contains(&lo) { return Err("bad surrogate pair".into()); }
                                v = 0x10000 + ((v - 0xD800) << 10) + (lo - 0xDC00);
                            }
                            char::from_u32(v).ok_or("bad code point")?
                        }
                        _ => return Err(format!("bad escape \\{}", e as char)),
                    };
                    let mut b = [0u8; 4];
                    out.extend_from_slice(ch.encode_utf8(&mut b).as_bytes());
                }
                c if c < 0x20 => return Err(format!("raw control character {c:#x} inside a string")),
                c => out.push(c),
            }
        }
    }
}
fn parse_json_line(line: &str) -> Result<J, String> {
    let mut p = P { s: line.as_bytes(), i: 0 };
    let v = p.value()?;
    p.ws();
    if p.i != line.len() { return Err(format!("trailing bytes after the value at {}", p.i)); }
    Ok(v)
}
fn get<'a>(o: &'a J, k: &str) -> Option<&'a J> {
    if let J::Obj(v) = o { v.iter().find(|(kk, _)| kk == k).map(|(_, v)| v) } else { None }
}
fn span_json(s: Option<&Span>) -> J {
    match s {
        None => J::Null,
        Some(s) => J::Obj(vec![
            ("start".into(), J::Obj(vec![("row".into(), J::Num(s.start.row as f64)), ("col".into(), J::Num(s.start.col as f64))])),
            ("end".into(), J::Obj(vec![("row".into(), J::Num(s.end.row as f64)), ("col".into(), J::Num(s.end.col as f64))])),
            ("file".into(), J::Str(s.file.clone())),
        ]),
    }
}
/// equality of objects up to key order
fn same(a: &J, b: &J) -> bool {
    match (a, b) {
        (J::Obj(x), J::Obj(y)) => x.len() == y.len() && x.iter().all(|(k, v)| y.iter().filter(|(k2, _)| k2 == k).count() == 1 && y.iter().any(|(k2, v2)| k2 == k && same(v, v2))),
        (J::Arr(x), J::Arr(y)) => x.len() == y.len() && x.iter().zip(y).all(|(p, q)| same(p, q)),
        _ => a == b,
    }
}

/// what the property expects to see for one emitted diagnostic
struct Exp {
    level: DiagnosticLevel,
    code: String,
    message: String,
    span: Option<Span>,
    notes: Vec<(String, Option<Span>)>,
}

fn check_json(out: &str, exp: &[Exp]) -> Result<(), String> {
    if out.contains('\u{1b}') { return Err("escape sequence in JSON output".into()); }
    if !exp.is_empty() && !out.ends_with('\n') { return Err("the last JSON object is not terminated by a newline".into()); }
    let lines: Vec<&str> = if out.is_empty() { vec![] } else { out[..out.len() - 1].split('\n').collect() };
    if lines.len() != exp.len() { return Err(format!("{} line(s) written for {} non-suppressed diagnostic(s)", lines.len(), exp.len())); }
    for (k, (l, e)) in lines.iter().zip(exp).enumerate() {
        let j = parse_json_line(l).map_err(|m| format!("line {}: not a self-contained JSON object: {m}: {l:?}", k + 1))?;
        let J::Obj(kv) = &j else { return Err(format!("line {}: not an object", k + 1)) };
        let mut keys: Vec<&str> = kv.iter().map(|(k, _)| k.as_str()).collect();
        keys.sort();
        if keys != ["error_code", "message", "notes", "severity", "span"] { return Err(format!("line {}: keys {:?}, expected exactly message, severity, span, notes, error_code", k + 1, keys)); }
        let sev = if e.level == DiagnosticLevel::Error { "error" } else { "warning" };
        let want = J::Obj(vec![
            ("message".into(), J::Str(e.message.clone())), ("severity".into(), J::Str(sev.into())), ("span".into(), span_json(e.span.as_ref())),
            ("notes".into(), J::Arr(e.notes.iter().map(|(m, s)| J::Obj(vec![("message".into(), J::Str(m.clone())), ("span".into(), span_json(s.as_ref()))])).collect())),
            ("error_code".into(), J::Str(e.code.clone())),
        ]);
        if !same(&j, &want) {
            for key in ["message", "severity", "span", "notes", "error_code"] {
                if !same(get(&j, key).unwrap(), get(&want, key).unwrap()) { return Err(format!("line {}: {key} is {:?}, the diagnostic's is {:?}", k + 1, get(&j, key).unwrap(), get(&want, key).unwrap())); }
            }
        }
    }
    Ok(())
}

fn check_human(out: &str, exp: &[Exp], totals: (usize, usize), colours_disabled: bool) -> Result<(), String> {
    if colours_disabled && out.contains('\u{1b}') { return Err("escape sequence in the output although colours are disabled".into()); }
    // strip styling (only present when colours are enabled) before reading the structure
    let mut plain = String::new();
    let mut it = out.chars().peekable();
    while let Some(c) = it.next() {
        if c == '\u{1b}' { for d in it.by_ref() { if d.is_ascii_alphabetic() { break; } } } else { plain.push(c); }
    }
    let lines: Vec<&str> = plain.split('\n').collect();
    // the expected sequence of structural lines
    let mut want: Vec<String> = vec![];
    for e in exp {
        let kind = if e.level == DiagnosticLevel::Error { "error" } else { "warning" };
        want.push(format!("{kind} [{}]: {}", e.code, e.message));
        if let Some(s) = &e.span { want.push(format!(" --> {}:{}:{}", s.file, s.start.row, s.start.col)); }
        for (m, s) in &e.notes {
            want.push(format!("note: {m}"));
            if let Some(s) = s { want.push(format!(" --> {}:{}:{}", s.file, s.start.row, s.start.col)); }
        }
    }
    // structural lines actually written: headers, notes, arrows (messages in this oracle are single-line for the human format)
    let got: Vec<&str> = lines.iter().cloned().filter(|l| l.starts_with("error [") || l.starts_with("warning [") || l.starts_with("note: ") || l.starts_with(" --> ")).collect();
    if got.len() != want.len() || got.iter().zip(&want).any(|(g, w)| g != w) {
        let k = got.iter().zip(&want).position(|(g, w)| g != w).unwrap_or(got.len().min(want.len()));
        return Err(format!("structural line {} is {:?}, expected {:?} ({} written, {} expected)", k + 1, got.get(k), want.get(k), got.len(), want.len()));
    }
    // an arrow line comes right after its header / note line
    for (k, l) in lines.iter().enumerate() {
        if l.starts_with(" --> ") && (k == 0 || !(lines[k - 1].starts_with("error [") || lines[k - 1].starts_with("warning [") || lines[k - 1].starts_with("note: "))) {
            return Err(format!("location line {l:?} does not follow the line it belongs to"));
        }
    }
    let shown_e = got.iter().filter(|l| l.starts_with("error [")).count();
    let shown_w = got.iter().filter(|l| l.starts_with("warning [")).count();
    if (shown_w, shown_e) != totals { return Err(format!("{shown_w} warning(s) and {shown_e} error(s) shown, the summary counts are {} and {}", totals.0, totals.1)); }
    Ok(())
}

fn messages() -> Vec<&'static str> {
    vec!["plain", "with \"quotes\" and a back\\slash", "tab\there", "unicode é 日本 \u{1F600}", "control \u{1} \u{1f} \u{7f}", "</script> & {braces} [brackets], commas: a, b", "'single' `back` %s {} {0}"]
}

pub fn run() -> i32 {
    let mut rep = Report::new("emission", "synthetic diagnostic lists over 2 real files (kind error / lint / suppressed lint x span none / some x 0..2 notes x note span none / some x 7 message texts incl. quotes, backslashes, control characters, astral characters; lists of length <= 3) + the real diagnostics of 10 ill-formed programs under 3 suppression settings (recorded order kept by the level rewriting); x format JSON / human x colours disabled / enabled (forced on first)");
    let files_text = ["module M\nstruct S { a: bool }\n\tstruct T { s: S }\n", "module N\ninterface I {\n    op(p: string) -> int32\n}\n"];
    let base = slicec::compile_from_strings(&files_text, Some(&SliceOptions::default()));
    let files = base.files;
    let ast = base.ast;
    let names: Vec<String> = files.iter().map(|f| f.relative_path.clone()).collect();
    let spans = [
        Span::new(Location { row: 2, col: 8 }, Location { row: 2, col: 9 }, &names[0]),
        Span::new(Location { row: 3, col: 2 }, Location { row: 3, col: 19 }, &names[0]),
        Span::new(Location { row: 2, col: 1 }, Location { row: 4, col: 2 }, &names[1]),
    ];
    // ---- synthetic single diagnostics, then lists --------------------------------------------------------------
    #[derive(Clone)]
    struct Shape { kind: u8, msg: usize, span: Option<usize>, notes: Vec<(usize, Option<usize>)> }
    let mut shapes: Vec<Shape> = vec![];
    for kind in 0..4u8 {
        for msg in 0..messages().len() {
            for span in [None, Some(0), Some(1), Some(2)] {
                for notes in [vec![], vec![(1usize, None)], vec![(2, Some(0))], vec![(3, Some(2)), (0, None)], vec![(5, None), (4, Some(1))]] {
                    // keep the product manageable: vary the message only on the first span / note choices
                    if msg > 0 && !(span == Some(0) || span.is_none()) { continue; }
                    if msg > 1 && notes.len() == 2 { continue; }
                    shapes.push(Shape { kind, msg, span, notes });
                }
            }
        }
    }
    let build = |sh: &Shape, tag: &str| -> Diagnostic {
        let m = format!("{} <{tag}>", messages()[sh.msg]);
        let mut d = match sh.kind {
            0 => Diagnostic::new(Error::Syntax { message: m }),
            1 => Diagnostic::new(Lint::MalformedDocComment { message: m }),
            2 => Diagnostic::new(Lint::BrokenDocLink { message: m }),           // suppressed below by --allow BrokenDocLink
            _ => Diagnostic::new(Error::IO { action: "read", path: m, error: std::io::Error::other("boom") }),
        };
        if let Some(s) = sh.span { d = d.set_span(&spans[s]); }
        for (nm, ns) in &sh.notes { d = d.add_note(format!("{} <{tag}n>", messages()[*nm]), ns.map(|s| &spans[s])); }
        d
    };
    let mut lists: Vec<Vec<(Shape, String)>> = shapes.iter().enumerate().map(|(i, s)| vec![(s.clone(), format!("d{i}"))]).collect();
    // lists of 2 and 3: orders, duplicates, suppressed ones in every position
    let n = shapes.len();
    for a in (0..n).step_by(7) {
        let b = (a * 5 + 3) % n;
        let c = (a * 11 + 1) % n;
        lists.push(vec![(shapes[a].clone(), "x".into()), (shapes[b].clone(), "y".into())]);
        lists.push(vec![(shapes[b].clone(), "y".into()), (shapes[a].clone(), "x".into())]);
        lists.push(vec![(shapes[a].clone(), "x".into()), (shapes[b].clone(), "y".into()), (shapes[c].clone(), "z".into())]);
        lists.push(vec![(shapes[c].clone(), "z".into()), (shapes[a].clone(), "x".into()), (shapes[a].clone(), "x2".into())]);
    }
    // the SAME diagnostic text recorded twice in a row (and three times), with the same and with different locations
    for a in (0..n).step_by(11) {
        let mut other = shapes[a].clone();
        other.span = if other.span == Some(1) { Some(2) } else { Some(1) };
        lists.push(vec![(shapes[a].clone(), "same".into()), (shapes[a].clone(), "same".into())]);
        lists.push(vec![(shapes[a].clone(), "same".into()), (other.clone(), "same".into()), (shapes[a].clone(), "same".into())]);
    }
    lists.push(vec![]);
    let mut jobs: Vec<(String, Diagnostics, SliceOptions, Vec<String>)> = vec![];
    for l in &lists {
        let mut ds = Diagnostics::new();
        for (sh, tag) in l { build(sh, tag).push_into(&mut ds); }
        let mut o = SliceOptions::default();
        o.allowed_lints = vec!["BrokenDocLink".to_owned()];
        let gone: Vec<String> = l.iter().filter(|(s, _)| s.kind == 2).map(|(_, t)| format!("<{t}>")).collect();
        jobs.push((format!("synthetic {:?}", l.iter().map(|(s, t)| format!("{t}:kind{} msg{} span{:?} notes{:?}", s.kind, s.msg, s.span, s.notes)).collect::<Vec<_>>()), ds, o, gone));
    }
    // ---- real diagnostics ----------------------------------------------------------------------------------------
    let corpus: [&[&str]; 10] = [
        &["module M\nstruct S { a: bool, a: bool }\n"],
        &["module M\nstruct S { s: S }\nstruct T { u: U }\nstruct U { t: T }\n"],
        &["module M\n[deprecated(\"old\")] struct A {}\nstruct B { a: A, b: A }\n"],
        &["module M\n/// {@link Nope}\n/// @param q: nothing\ninterface I { op() }\n"],
        &["module M\nstruct S { a: Unknown }\n", "module N\nstruct T { tag(1) a: bool }\n"],
        &["module M\nenum E : uint8 { A = 1, B = 1, C = 300 }\n"],
        &["module M\n#if X\nstruct S {\n"],
        &["module M\ninterface I : I {}\ntypealias A = Sequence<A>\n"],
        &["module M\n[allow(Deprecated)] struct Q { a: A }\n[deprecated] struct A {}\n/// @returns: nothing\ninterface I { op() }\n"],
        // errors recorded BEFORE, BETWEEN and AFTER lints (parser lints, then validation errors, then validator lints)
        &["module M\nstruct S { a: bool, a: bool }\n[deprecated] struct Old {}\ninterface I {\n    /// @param q: nothing\n    op(o: Old)\n}\nstruct T { tag(1) x: bool }\n"],
    ];
    for (ci, texts) in corpus.iter().enumerate() {
        for allow in [vec![], vec!["All".to_owned()], vec!["Deprecated".to_owned()]] {
            let mut o = SliceOptions::default();
            o.allowed_lints = allow.clone();
            jobs.push((format!("corpus #{ci} {texts:?} --allow {allow:?}"), Diagnostics::new(), o, vec![format!("CORPUS{ci}")]));
        }
    }
    let nsynthetic = lists.len();
    for (ji, (label, ds, mut options, gone)) in jobs.into_iter().enumerate() {
        // corpus jobs compile here (their files and AST are their own)
        let (ds, job_files, job_ast) = if ji >= nsynthetic {
            let ci: usize = gone[0].trim_start_matches("CORPUS").parse().unwrap();
            let st = match std::panic::catch_unwind(|| slicec::compile_from_strings(corpus[ci], Some(&SliceOptions::default()))) { Ok(s) => s, Err(_) => { rep.counterexample(&label, "a compilation state", "PANIC"); continue; } };
            (st.diagnostics, Some(st.files), Some(st.ast))
        } else { (ds, None, None) };
        let fl = job_files.as_deref().unwrap_or(&files);
        let a = job_ast.as_ref().unwrap_or(&ast);
        // the order in which the diagnostics were RECORDED (a second, identical list, read without the level rewriting)
        let recorded: Vec<(String, String)> = if ji >= nsynthetic {
            let ci: usize = gone[0].trim_start_matches("CORPUS").parse().unwrap();
            slicec::compile_from_strings(corpus[ci], Some(&SliceOptions::default())).diagnostics.into_inner().iter().map(|d| (d.code().to_owned(), d.message())).collect()
        } else {
            let mut again = Diagnostics::new();
            for (sh, tag) in &lists[ji] { build(sh, tag).push_into(&mut again); }
            again.into_inner().iter().map(|d| (d.code().to_owned(), d.message())).collect()
        };
        let updated = ds.into_updated(a, fl, &options);
        let after: Vec<(String, String)> = updated.iter().map(|d| (d.code().to_owned(), d.message())).collect();
        if after != recorded {
            rep.counterexample(&label, &format!("the level rewriting keeps every diagnostic, in the order recorded: {:?}", recorded.iter().map(|d| d.0.as_str()).collect::<Vec<_>>()), &format!("{:?}", after.iter().map(|d| d.0.as_str()).collect::<Vec<_>>()));
            continue;
        }
        let totals = slicec::diagnostics::get_totals(&updated);
        let exp: Vec<Exp> = updated.iter().filter(|d| d.level() != DiagnosticLevel::Allowed).map(|d| Exp {
            level: d.level(), code: d.code().to_owned(), message: d.message(), span: d.span().cloned(),
            notes: d.notes().iter().map(|n| (n.message.clone(), n.span.clone())).collect(),
        }).collect();
        let suppressed: Vec<String> = updated.iter().filter(|d| d.level() == DiagnosticLevel::Allowed).map(|d| d.message()).collect();
        // emit four times; Diagnostic is not Clone: rebuild the list by moving it through a Vec of references is not possible,
        // so the four emissions share one `updated` by emitting from freshly re-updated copies
        let mut remaining = Some(updated);
        for (fi, (format, no_colour)) in [(DiagnosticFormat::Json, true), (DiagnosticFormat::Json, false), (DiagnosticFormat::Human, true), (DiagnosticFormat::Human, false)].into_iter().enumerate() {
            // re-create the same list for every emission after the first
            let list = match remaining.take() {
                Some(l) => l,
                None => {
                    if ji >= nsynthetic {
                        let ci: usize = gone[0].trim_start_matches("CORPUS").parse().unwrap();
                        let st = slicec::compile_from_strings(corpus[ci], Some(&SliceOptions::default()));
                        st.diagnostics.into_updated(&st.ast, &st.files, &options)
                    } else {
                        let mut ds = Diagnostics::new();
                        for (sh, tag) in &lists[ji] { build(sh, tag).push_into(&mut ds); }
                        ds.into_updated(a, fl, &options)
                    }
                }
            };
            options.diagnostic_format = format;
            options.disable_color = no_colour;
            console::set_colors_enabled(true);
            console::set_colors_enabled_stderr(true);
            let case = format!("{label} / {} / colours {}", if format == DiagnosticFormat::Json { "json" } else { "human" }, if no_colour { "disabled" } else { "enabled" });
            rep.case(!exp.is_empty() || !suppressed.is_empty(), || case.clone());
            let mut sink: Vec<u8> = vec![];
            let r = std::panic::catch_unwind(std::panic::AssertUnwindSafe(|| {
                let mut emitter = slicec::diagnostic_emitter::DiagnosticEmitter::new(&mut sink, &options, fl);
                emitter.emit_diagnostics(list).is_ok()
            }));
            match r {
                Err(_) => { rep.counterexample(&case, "the diagnostics written", "PANIC while emitting"); continue; }
                Ok(false) => { rep.counterexample(&case, "the diagnostics written", "emit_diagnostics returned an error on an in-memory sink"); continue; }
                Ok(true) => {}
            }
            let Ok(out) = String::from_utf8(sink) else { rep.counterexample(&case, "UTF-8 output", "invalid UTF-8"); continue; };
            let verdict = if fi < 2 { check_json(&out, &exp) } else { check_human(&out, &exp, totals, no_colour) };
            if let Err(m) = verdict { rep.counterexample(&case, "every non-suppressed diagnostic exactly once, in order, complete and well-formed", &format!("{m}; output: {:?}", out.chars().take(400).collect::<String>())); continue; }
            // suppressed lints leave no trace
            if let Some(s) = suppressed.iter().find(|s| !exp.iter().any(|e| e.message == **s) && out.contains(s.as_str())) {
                rep.counterexample(&case, "a suppressed lint leaves no trace", &format!("its message {s:?} occurs in the output"));
            }
            for g in &gone { if g.starts_with('<') && out.contains(g.as_str()) { rep.counterexample(&case, "a suppressed lint leaves no trace", &format!("{g} occurs in the output")); } }
        }
    }
    rep.finish()
}
