//! C08 (bounded stand-in): the generator request, decoded INDEPENDENTLY, is the compiled program.
//!
//! The real `encode_generate_code_request` (text extracted from <repo>/slicec/src/main.rs at build time) and
//! the real `definition_types.rs` / `slice_file_converter.rs` (included by path) encode a corpus of programs;
//! the bytes are decoded by a generic decoder DRIVEN BY THE SCHEMA FILES shipped in slice/Compiler (parsed at
//! run time), and the decoded tree is compared with the AST seen through the library API:
//!   * the stream decodes completely (operation name, sources, references, nothing left over);
//!   * file paths, module identifiers, the source/reference split and all orders;
//!   * named symbols in source order with kind and identifier; fields / parameters / return members /
//!     enumerators / variants with identifiers, tags, optionality, enumerator values, flags, bases;
//!   * doc comments: overview text and links, @see tags, the documentation of each parameter and return member;
//!   * every numeric type id refers to an EARLIER anonymous-type symbol of the same file; every named type
//!     id, base, link and see target names an entity that exists in a transmitted file (or a primitive).
use crate::definition_types;
use crate::Report;
use slice_codec::encoder::Encoder;
use slicec::grammar::*;
use slicec::slice_options::SliceOptions;
use std::collections::{BTreeMap, BTreeSet};

include!("request_fn.rs");

// ------------------------------------------------------------------------------------------------
// schema model
// ------------------------------------------------------------------------------------------------
#[derive(Debug, Clone)]
enum Ty { Named(String), Seq(Box<Ty>), Dict(Box<Ty>, Box<Ty>) }
#[derive(Debug)]
enum Def {
    Struct(Vec<(String, Ty, bool)>),               // (field, type, optional)
    Variants(Vec<(String, String, Ty)>),           // (enumerator, field, type)
    Unchecked(String, Vec<String>),                // underlying, enumerators
    Alias(Ty),
}

fn parse_ty(s: &str) -> Ty {
    let s = s.trim();
    if let Some(inner) = s.strip_prefix("Sequence<").and_then(|x| x.strip_suffix('>')) { return Ty::Seq(Box::new(parse_ty(inner))); }
    if let Some(inner) = s.strip_prefix("Dictionary<").and_then(|x| x.strip_suffix('>')) {
        let (k, v) = inner.split_once(',').unwrap();
        return Ty::Dict(Box::new(parse_ty(k)), Box::new(parse_ty(v)));
    }
    Ty::Named(s.to_owned())
}

fn parse_schema(dir: &str) -> BTreeMap<String, Def> {
    let mut defs = BTreeMap::new();
    for f in ["CodeGenerator.slice", "SyntaxElements.slice", "DocComment.slice"] {
        let text = std::fs::read_to_string(format!("{dir}/{f}")).unwrap();
        let mut lines = text.lines().map(|l| l.split("//").next().unwrap().trim()).filter(|l| !l.is_empty() && !l.starts_with('[')).peekable();
        while let Some(l) = lines.next() {
            let words: Vec<&str> = l.split_whitespace().collect();
            match words.as_slice() {
                ["module", ..] => {}
                ["typealias", name, "=", rest @ ..] => { defs.insert(name.to_string(), Def::Alias(parse_ty(&rest.join(" ")))); }
                ["interface", ..] => { for x in lines.by_ref() { if x == "}" { break; } } }
                ["struct", name, "{"] => {
                    let mut fields = vec![];
                    for x in lines.by_ref() {
                        if x == "}" { break; }
                        let (n, t) = x.split_once(':').unwrap();
                        let t = t.trim();
                        let (t, opt) = match t.strip_suffix('?') { Some(b) => (b, true), None => (t, false) };
                        fields.push((n.trim().trim_start_matches('\\').to_owned(), parse_ty(t), opt));
                    }
                    defs.insert(name.to_string(), Def::Struct(fields));
                }
                ["enum", name, "{"] => {
                    let mut vs = vec![];
                    for x in lines.by_ref() {
                        if x == "}" { break; }
                        let (n, rest) = x.split_once('(').unwrap();
                        let (fname, t) = rest.trim_end_matches(')').split_once(':').unwrap();
                        vs.push((n.trim().to_owned(), fname.trim().to_owned(), parse_ty(t)));
                    }
                    defs.insert(name.to_string(), Def::Variants(vs));
                }
                ["unchecked", "enum", name, ":", underlying, "{"] => {
                    let mut es = vec![];
                    for x in lines.by_ref() { if x == "}" { break; } es.push(x.to_owned()); }
                    defs.insert(name.to_string(), Def::Unchecked(underlying.to_string(), es));
                }
                other => panic!("schema construct outside the supported subset: {other:?}"),
            }
        }
    }
    defs
}

// ------------------------------------------------------------------------------------------------
// generic values and the schema-driven decoder (Slice2 rules, written from the codec's documentation)
// ------------------------------------------------------------------------------------------------
#[derive(Debug, Clone, PartialEq)]
enum V { S(String), B(bool), I(i128), Seq(Vec<V>), Struct(String, Vec<(String, V)>), Variant(String, usize, String, Box<V>), Absent, Dict(Vec<(V, V)>) }
impl V {
    fn f(&self, name: &str) -> &V { match self { V::Struct(_, fs) => &fs.iter().find(|(n, _)| n == name).unwrap_or_else(|| panic!("no field {name}")).1, _ => panic!("not a struct: {self:?}") } }
    fn s(&self) -> &str { match self { V::S(s) => s, _ => panic!("not a string: {self:?}") } }
    fn b(&self) -> bool { match self { V::B(b) => *b, _ => panic!("not a bool") } }
    fn i(&self) -> i128 { match self { V::I(i) => *i, _ => panic!("not an integer") } }
    fn seq(&self) -> &Vec<V> { match self { V::Seq(v) => v, _ => panic!("not a sequence") } }
}
struct Dec<'a> { b: &'a [u8], p: usize }
impl<'a> Dec<'a> {
    fn byte(&mut self) -> Result<u8, String> { let x = *self.b.get(self.p).ok_or("end of buffer")?; self.p += 1; Ok(x) }
    fn fixed(&mut self, n: usize) -> Result<u64, String> { let mut r = 0u64; for i in 0..n { r |= (self.byte()? as u64) << (8 * i); } Ok(r) }
    fn varuint(&mut self) -> Result<u64, String> {
        let first = *self.b.get(self.p).ok_or("end of buffer")?;
        let w = 1usize << (first & 3);
        Ok(self.fixed(w)? >> 2)
    }
    fn varint(&mut self) -> Result<i64, String> {
        let first = *self.b.get(self.p).ok_or("end of buffer")?;
        let w = 1usize << (first & 3);
        let raw = self.fixed(w)?;
        let shift = 64 - 8 * w as u32;
        Ok((((raw << shift) as i64) >> shift) >> 2)
    }
    fn string(&mut self) -> Result<String, String> {
        let n = self.varuint()? as usize;
        let s = self.b.get(self.p..self.p + n).ok_or("string beyond the buffer")?;
        self.p += n;
        String::from_utf8(s.to_vec()).map_err(|_| "invalid UTF-8".to_owned())
    }
    fn value(&mut self, defs: &BTreeMap<String, Def>, ty: &Ty) -> Result<V, String> {
        match ty {
            Ty::Seq(t) => { let n = self.varuint()?; let mut v = vec![]; for _ in 0..n { v.push(self.value(defs, t)?); } Ok(V::Seq(v)) }
            Ty::Dict(k, v) => { let n = self.varuint()?; let mut out = vec![]; for _ in 0..n { let kk = self.value(defs, k)?; let vv = self.value(defs, v)?; out.push((kk, vv)); } Ok(V::Dict(out)) }
            Ty::Named(n) => match n.as_str() {
                "string" => Ok(V::S(self.string()?)),
                "bool" => match self.byte()? { 0 => Ok(V::B(false)), 1 => Ok(V::B(true)), x => Err(format!("invalid bool {x}")) },
                "uint8" => Ok(V::I(self.fixed(1)? as i128)),
                "int32" => Ok(V::I(self.fixed(4)? as u32 as i32 as i128)),
                "uint64" => Ok(V::I(self.fixed(8)? as i128)),
                "varint32" => Ok(V::I(self.varint()? as i128)),
                name => match defs.get(name).ok_or(format!("unknown schema type {name}"))? {
                    Def::Alias(t) => self.value(defs, t),
                    Def::Unchecked(u, _) => self.value(defs, &Ty::Named(u.clone())),
                    Def::Struct(fields) => {
                        let nopt = fields.iter().filter(|f| f.2).count();
                        let mut bits = vec![];
                        for _ in 0..(nopt + 7) / 8 { bits.push(self.byte()?); }
                        let mut k = 0;
                        let mut out = vec![];
                        for (fname, fty, opt) in fields {
                            if *opt {
                                let present = bits[k / 8] & (1 << (k % 8)) != 0;
                                k += 1;
                                out.push((fname.clone(), if present { self.value(defs, fty)? } else { V::Absent }));
                            } else {
                                out.push((fname.clone(), self.value(defs, fty)?));
                            }
                        }
                        let end = self.varint()?;
                        if end != -1 { return Err(format!("struct {name}: expected the tag end marker, found tag {end}")); }
                        Ok(V::Struct(name.to_owned(), out))
                    }
                    Def::Variants(vs) => {
                        let d = self.varint()?;
                        let (vn, _f, vt) = vs.get(d as usize).ok_or(format!("enum {name}: discriminant {d} has no enumerator"))?;
                        let inner = self.value(defs, vt)?;
                        let end = self.varint()?;
                        if end != -1 { return Err(format!("enum {name}: expected the tag end marker, found tag {end}")); }
                        Ok(V::Variant(name.to_owned(), d as usize, vn.clone(), Box::new(inner)))
                    }
                },
            },
        }
    }
}

// ------------------------------------------------------------------------------------------------
// expectations from the AST (library API)
// ------------------------------------------------------------------------------------------------
const PRIMITIVES: &[&str] = &["bool", "int8", "uint8", "int16", "uint16", "int32", "uint32", "varint32", "varuint32", "int64", "uint64", "varint62", "varuint62", "float32", "float64", "string", "AnyClass"];

fn overview_text(c: &V) -> String {
    // DocComment.overview: Sequence<MessageComponent>; Text(v) contributes v, Link(v) contributes {@link v}
    c.f("overview").seq().iter().map(|m| match m { V::Variant(_, _, n, v) if n == "Text" => v.s().to_owned(), V::Variant(_, _, _, v) => format!("{{@link {}}}", v.s()), _ => String::new() }).collect()
}
fn ast_message(m: &Message) -> String {
    m.value.iter().map(|c| match c {
        MessageComponent::Text(t) => t.clone(),
        MessageComponent::Link(l) => format!("{{@link {}}}", match l.linked_entity() { Ok(e) => e.parser_scoped_identifier(), Err(id) => id.value.clone() }),
    }).collect()
}
/// (directive, arguments) of the attributes as WRITTEN: unparsed ones verbatim (unescaped arguments), the
/// parsed kinds of the corpus (`deprecated`, `allow`) from their fields
fn ast_attrs(attrs: Vec<&Attribute>) -> Vec<(String, Vec<String>)> {
    use slicec::grammar::attributes::{Allow, Deprecated, Unparsed};
    attrs.iter().map(|a| {
        if let Some(u) = a.downcast::<Unparsed>() { (u.directive.clone(), u.args.clone()) }
        else if let Some(d) = a.downcast::<Deprecated>() { ("deprecated".to_owned(), d.reason.iter().cloned().collect()) }
        else if let Some(l) = a.downcast::<Allow>() { ("allow".to_owned(), l.allowed_lints.clone()) }
        else { (a.kind.directive().to_owned(), vec!["<not modelled by the oracle>".to_owned()]) }
    }).collect()
}
fn got_attrs(v: &V) -> Vec<(String, Vec<String>)> { v.seq().iter().map(|a| (a.f("directive").s().to_owned(), a.f("args").seq().iter().map(|x| x.s().to_owned()).collect())).collect() }
fn comment_of(info: &V) -> Option<&V> { match info.f("comment") { V::Absent => None, c => Some(c) } }

struct Ctx<'a> { problems: Vec<String>, entities: &'a BTreeSet<String>, file: String }
impl Ctx<'_> {
    fn eq<T: PartialEq + std::fmt::Debug>(&mut self, what: &str, got: T, want: T) { if got != want { self.problems.push(format!("{}: {what}: decoded {got:?}, compiled program has {want:?}", self.file)); } }
    fn type_ref(&mut self, what: &str, tr: &V, ast: &TypeRef, index_of_user: usize, symbols: &[V]) {
        self.eq(&format!("{what} optional"), tr.f("isOptional").b(), ast.is_optional);
        self.eq(&format!("{what} type attributes"), got_attrs(tr.f("typeAttributes")), ast_attrs(ast.attributes()));
        let id = tr.f("typeId").s();
        if let Ok(n) = id.parse::<usize>() {
            match symbols.get(n) {
                Some(V::Variant(_, _, kind, _)) if ["SequenceType", "DictionaryType", "ResultType"].contains(&kind.as_str()) => {
                    if n >= index_of_user { self.problems.push(format!("{}: {what}: numeric type id {n} does not refer to an EARLIER symbol (user is symbol {index_of_user})", self.file)); }
                    let want = match ast.concrete_type() { Types::Sequence(_) => "SequenceType", Types::Dictionary(_) => "DictionaryType", Types::ResultType(_) => "ResultType", _ => "a named type" };
                    self.eq(&format!("{what} anonymous kind"), kind.as_str(), want);
                    // ... and the symbol referred to IS this type: its components, recursively, are the components written
                    if kind.as_str() == want {
                        let V::Variant(_, _, _, body) = &symbols[n] else { unreachable!() };
                        match ast.concrete_type() {
                            Types::Sequence(x) => self.type_ref(&format!("{what} element"), body.f("elementType"), &x.element_type, n, symbols),
                            Types::Dictionary(x) => { self.type_ref(&format!("{what} key"), body.f("keyType"), &x.key_type, n, symbols); self.type_ref(&format!("{what} value"), body.f("valueType"), &x.value_type, n, symbols); }
                            Types::ResultType(x) => { self.type_ref(&format!("{what} success"), body.f("successType"), &x.success_type, n, symbols); self.type_ref(&format!("{what} failure"), body.f("failureType"), &x.failure_type, n, symbols); }
                            _ => {}
                        }
                    }
                }
                other => self.problems.push(format!("{}: {what}: numeric type id {n} refers to {:?}, not to an anonymous-type symbol", self.file, other.map(|v| match v { V::Variant(_, _, k, _) => k.clone(), _ => "?".into() }))),
            }
        } else {
            if !PRIMITIVES.contains(&id) && !self.entities.contains(id) { self.problems.push(format!("{}: {what}: type id '{id}' names no transmitted entity", self.file)); }
            let want = match ast.concrete_type() {
                Types::Primitive(p) => p.kind().to_owned(),
                Types::Struct(x) => x.parser_scoped_identifier(), Types::Enum(x) => x.parser_scoped_identifier(),
                Types::CustomType(x) => x.parser_scoped_identifier(),
                _ => "an anonymous type".to_owned(),
            };
            self.eq(&format!("{what} type id"), id.to_owned(), want);
        }
    }
    fn entity(&mut self, what: &str, info: &V, ast: &dyn Commentable) {
        self.eq(&format!("{what} identifier"), info.f("identifier").s().to_owned(), ast.identifier().to_owned());
        self.eq(&format!("{what} attributes"), got_attrs(info.f("attributes")), ast_attrs(ast.attributes()));
        let got = comment_of(info);
        match (got, ast.comment()) {
            (None, None) => {}
            (Some(c), Some(ac)) => {
                let want = ac.overview.as_ref().map(ast_message).unwrap_or_default();
                self.eq(&format!("{what} doc overview"), overview_text(c), want);
                let sees: Vec<String> = c.f("seeTags").seq().iter().map(|s| s.s().to_owned()).collect();
                let want_sees: Vec<String> = ac.see.iter().map(|s| match s.linked_entity() { Ok(e) => e.parser_scoped_identifier(), Err(id) => id.value.clone() }).collect();
                self.eq(&format!("{what} @see tags"), sees.clone(), want_sees);
                for s in &sees { if !self.entities.contains(s) && ac.see.iter().all(|t| t.linked_entity().is_ok()) { self.problems.push(format!("{}: {what}: @see '{s}' names no transmitted entity", self.file)); } }
            }
            (g, w) => self.problems.push(format!("{}: {what}: doc comment decoded={} compiled={}", self.file, g.is_some(), w.is_some())),
        }
    }
    fn member_doc(&mut self, what: &str, info: &V, want: Option<String>) {
        let got = comment_of(info).map(overview_text);
        self.eq(&format!("{what} documentation"), got, want);
    }
    fn fields(&mut self, what: &str, got: &[V], want: &[&Field], user: usize, symbols: &[V]) {
        self.eq(&format!("{what} count"), got.len(), want.len());
        for (g, w) in got.iter().zip(want) {
            let w0 = format!("{what} '{}'", w.identifier());
            self.entity(&w0, g.f("entityInfo"), *w);
            self.eq(&format!("{w0} tag"), match g.f("tag") { V::Absent => None, t => Some(t.i()) }, w.tag.as_ref().map(|t| t.value as i128));
            self.type_ref(&w0, g.f("dataType"), &w.data_type, user, symbols);
        }
    }
}

fn check_file(ctx: &mut Ctx, dv: &V, file: &slicec::slice_file::SliceFile) {
    ctx.file = file.relative_path.clone();
    ctx.eq("path", dv.f("path").s().to_owned(), file.relative_path.clone());
    let module = file.module.as_ref().unwrap().borrow();
    ctx.eq("module identifier", dv.f("moduleDeclaration").f("identifier").s().to_owned(), module.nested_module_identifier().to_owned());
    ctx.eq("module attributes", got_attrs(dv.f("moduleDeclaration").f("attributes")), ast_attrs(module.attributes()));
    ctx.eq("file attributes", got_attrs(dv.f("attributes")), ast_attrs(file.attributes()));
    let symbols = dv.f("contents").seq().clone();
    let named: Vec<(usize, &V)> = symbols.iter().enumerate().filter(|(_, s)| matches!(s, V::Variant(_, _, k, _) if !["SequenceType", "DictionaryType", "ResultType"].contains(&k.as_str()))).collect();
    ctx.eq("number of named symbols", named.len(), file.contents.len());
    for ((idx, sym), def) in named.iter().zip(&file.contents) {
        let V::Variant(_, _, kind, body) = sym else { continue };
        match def {
            Definition::Struct(s) => {
                let s = s.borrow();
                ctx.eq("symbol kind", kind.as_str(), "Struct");
                if kind != "Struct" { continue; }
                ctx.entity("struct", body.f("entityInfo"), s);
                ctx.eq("struct compact", body.f("isCompact").b(), s.is_compact);
                ctx.fields(&format!("struct {} field", s.identifier()), body.f("fields").seq(), &s.fields(), *idx, &symbols);
            }
            Definition::Interface(i) => {
                let i = i.borrow();
                ctx.eq("symbol kind", kind.as_str(), "Interface");
                if kind != "Interface" { continue; }
                ctx.entity("interface", body.f("entityInfo"), i);
                let bases: Vec<String> = body.f("bases").seq().iter().map(|b| b.s().to_owned()).collect();
                ctx.eq("interface bases", bases.clone(), i.base_interfaces().iter().map(|b| b.parser_scoped_identifier()).collect());
                for b in &bases { if !ctx.entities.contains(b) { ctx.problems.push(format!("{}: base '{b}' names no transmitted entity", ctx.file)); } }
                let ops = body.f("operations").seq();
                ctx.eq("operation count", ops.len(), i.operations().len());
                for (g, w) in ops.iter().zip(i.operations()) {
                    let what = format!("operation {}::{}", i.identifier(), w.identifier());
                    ctx.entity(&what, g.f("entityInfo"), w);
                    ctx.eq(&format!("{what} idempotent"), g.f("isIdempotent").b(), w.is_idempotent);
                    ctx.eq(&format!("{what} streamed parameter"), g.f("hasStreamedParameter").b(), w.parameters().iter().any(|p| p.is_streamed));
                    ctx.eq(&format!("{what} streamed return"), g.f("hasStreamedReturn").b(), w.return_members().iter().any(|p| p.is_streamed));
                    for (label, got, want, docs) in [
                        ("parameter", g.f("parameters").seq(), w.parameters(), w.comment().map(|c| c.params.iter().map(|p| (Some(p.identifier.value.clone()), ast_message(&p.message))).collect::<Vec<_>>())),
                        ("return member", g.f("returnType").seq(), w.return_members(), w.comment().map(|c| c.returns.iter().map(|r| (r.identifier.as_ref().map(|i| i.value.clone()), ast_message(&r.message))).collect::<Vec<_>>())),
                    ] {
                        ctx.eq(&format!("{what} {label} count"), got.len(), want.len());
                        for (gp, wp) in got.iter().zip(&want) {
                            let w0 = format!("{what} {label} '{}'", wp.identifier());
                            ctx.eq(&format!("{w0} identifier"), gp.f("entityInfo").f("identifier").s().to_owned(), wp.identifier().to_owned());
                            ctx.eq(&format!("{w0} tag"), match gp.f("tag") { V::Absent => None, t => Some(t.i()) }, wp.tag.as_ref().map(|t| t.value as i128));
                            ctx.eq(&format!("{w0} attributes"), got_attrs(gp.f("entityInfo").f("attributes")), ast_attrs(wp.attributes()));
                            ctx.type_ref(&w0, gp.f("dataType"), &wp.data_type, *idx, &symbols);
                            // the documentation written for this member: the @param / @returns tag that names it
                            // (an unnamed @returns documents the single return member)
                            let doc = docs.as_ref().and_then(|d| d.iter().find(|(n, _)| n.as_deref() == Some(wp.identifier()) || (n.is_none() && label == "return member" && want.len() == 1)).map(|(_, m)| m.clone()));
                            ctx.member_doc(&w0, gp.f("entityInfo"), doc);
                        }
                    }
                }
            }
            Definition::Enum(e) => {
                let e = e.borrow();
                let want_kind = if e.underlying.is_some() { "BasicEnum" } else { "VariantEnum" };
                ctx.eq("symbol kind", kind.as_str(), want_kind);
                if kind != want_kind { continue; }
                ctx.entity("enum", body.f("entityInfo"), e);
                ctx.eq("enum unchecked", body.f("isUnchecked").b(), e.is_unchecked);
                if want_kind == "BasicEnum" {
                    ctx.eq("enum underlying", body.f("underlying").s().to_owned(), e.underlying.as_ref().unwrap().definition().kind().to_owned());
                    let es = body.f("enumerators").seq();
                    ctx.eq("enumerator count", es.len(), e.enumerators().len());
                    for (g, w) in es.iter().zip(e.enumerators()) {
                        let what = format!("enumerator {}::{}", e.identifier(), w.identifier());
                        ctx.entity(&what, g.f("entityInfo"), w);
                        let v = g.f("absoluteValue").i() * if g.f("hasNegativeValue").b() { -1 } else { 1 };
                        ctx.eq(&format!("{what} value"), v, w.value());
                    }
                } else {
                    ctx.eq("enum compact", body.f("isCompact").b(), e.is_compact);
                    let vs = body.f("variants").seq();
                    ctx.eq("variant count", vs.len(), e.enumerators().len());
                    for (g, w) in vs.iter().zip(e.enumerators()) {
                        let what = format!("variant {}::{}", e.identifier(), w.identifier());
                        ctx.entity(&what, g.f("entityInfo"), w);
                        ctx.eq(&format!("{what} discriminant"), g.f("discriminant").i(), w.value());
                        ctx.fields(&format!("{what} field"), g.f("fields").seq(), &w.fields(), *idx, &symbols);
                    }
                }
            }
            Definition::CustomType(c) => { let c = c.borrow(); ctx.eq("symbol kind", kind.as_str(), "CustomType"); if kind == "CustomType" { ctx.entity("custom type", body.f("entityInfo"), c); } }
            Definition::TypeAlias(a) => {
                let a = a.borrow();
                ctx.eq("symbol kind", kind.as_str(), "TypeAlias");
                if kind == "TypeAlias" { ctx.entity("type alias", body.f("entityInfo"), a); ctx.type_ref(&format!("alias {}", a.identifier()), body.f("underlyingType"), &a.underlying, *idx, &symbols); }
            }
        }
    }
    // anonymous symbols: their component types also obey the "earlier symbol" rule
    for (idx, sym) in symbols.iter().enumerate() {
        if let V::Variant(_, _, kind, body) = sym {
            let comps: Vec<&V> = match kind.as_str() { "SequenceType" => vec![body.f("elementType")], "DictionaryType" => vec![body.f("keyType"), body.f("valueType")], "ResultType" => vec![body.f("successType"), body.f("failureType")], _ => vec![] };
            for c in comps {
                if let Ok(n) = c.f("typeId").s().parse::<usize>() { if n >= idx { ctx.problems.push(format!("{}: anonymous symbol {idx} ({kind}) refers to symbol {n}, which is not earlier", ctx.file)); } }
                else if !PRIMITIVES.contains(&c.f("typeId").s()) && !ctx.entities.contains(c.f("typeId").s()) { ctx.problems.push(format!("{}: anonymous symbol {idx}: type id '{}' names no transmitted entity", ctx.file, c.f("typeId").s())); }
            }
        }
    }
}

const CORPUS: &[(&str, &[(&str, bool)])] = &[
    ("structs, tags, optionals, anonymous types to depth 3", &[("module M\nstruct Z { z: varint62 }\nstruct A { a: bool, tag(0) b: int32?, tag(2147483647) c: Sequence<Dictionary<string, Sequence<Z?>>>?, tag(31) d: bool?, tag(32) e: bool?, tag(63) f: bool?, tag(64) g: bool?, tag(8191) h: bool?, tag(8192) i: string?, tag(16383) j: bool?, tag(536870911) k: bool?, tag(536870912) l: bool? }\ncompact struct B { x: A, y: Result<A, string>, w: Sequence<Dictionary<string, Sequence<Z?>>> }\n", true)]),
    ("enums: values at the extremes, unchecked, fields, compact", &[("module M\nenum E : int64 { A = -9223372036854775808, B = 9223372036854775807, C = 0 }\nenum F : uint64 { Lo = 0, Mid = 9223372036854775807, Half = 9223372036854775808, Next, Top = 18446744073709551615 }\nenum G : varuint62 { Max = 4611686018427387903 }\nenum H : varint62 { Min = -2305843009213693952, Max = 2305843009213693951 }\nunchecked enum I8 : int8 { Min = -128, Max = 127 }\nunchecked enum U : uint8 { X, Y = 255 }\nenum V { P, Q(a: bool, tag(3) b: string?), R(c: Sequence<U>) }\ncompact enum W { One(x: int8), Two }\nunchecked enum X { Only }\n", true)]),
    ("interfaces: bases, idempotent, streams, return tuples, docs on parameters and return members", &[("module M\ninterface Base { ping() }\ninterface I : Base {\n    /// Does things.\n    /// @param a: the first\n    /// @param b: the second {@link Base}\n    /// @returns r: the result\n    /// @returns s: the other result\n    /// @see Base\n    /// @see Base::ping\n    /// @see I\n    [x::op] idempotent op([p::one] a: bool, [p::two(x)] tag(1) b: string?, c: stream uint8) -> (r: int32, s: stream string)\n    /// @returns: just this\n    single(x: Sequence<bool>) -> string\n    /// @param x: same name as the return member below\n    /// @returns x: the return member called x\n    same(x: bool) -> (x: int32, y: bool)\n}\n", true)]),
    ("anonymous types nested in their own kind", &[("module M\nstruct N { a: Sequence<Sequence<bool>>, b: Sequence<Sequence<Sequence<string>>>, c: Dictionary<string, Dictionary<int32, Dictionary<bool, uint8>>>, d: Result<Result<bool, string>, Result<int8, Sequence<Sequence<bool>>>>, e: Sequence<bool>, f: Sequence<Sequence<bool>> }\ninterface NI { op(p: Sequence<Sequence<int32>>, q: Sequence<int32>) -> Dictionary<string, Sequence<Sequence<string>>> }\ntypealias NA = Sequence<Dictionary<string, Sequence<NA2>>>\ntypealias NA2 = Sequence<Sequence<uint8>>\n", true)]),
    ("type aliases, custom types, attributes, links in overviews", &[("[[allow(Deprecated)]]\nmodule M::N\n/// An alias of {@link C} to look at.\n[deprecated(\"use \\\"C\\\" instead\")] typealias T = Sequence<C>\n[foo::bar(a, \"b c\")] custom C\n/// Uses {@link T} and then {@link C}, in that order.\nstruct S { [f::first] [f::second(one, two)] t: T, u: [cs::type(\"List\")] Sequence<T> }\n", true)]),
    ("two source files and a reference file referring to each other", &[
        ("module A\nstruct S1 { x: B::S2?, y: R::Shared }\n", true), ("module B\nstruct S2 { y: Sequence<R::Shared> }\ninterface J : R::RI { get() -> A::S1 }\n", true), ("module R\nstruct Shared {}\ninterface RI {}\n", false)]),
    ("reference first, sources after, an empty file in between", &[("module R\nenum Color { Red, Green }\n", false), ("// nothing here\n", true), ("module S\nstruct P { c: R::Color }\n", true)]),
];

pub fn run() -> i32 {
    let mut rep = Report::new("request", "6 multi-file programs covering every definition kind, anonymous types to depth 3, tags 0, 2^31-1 and both sides of every variable-width boundary (31/32, 63/64, 8191/8192, 16383, 2^29-1/2^29), enumerator extremes, doc comments with links / @param / @returns / @see, source/reference splits: real encoder -> schema-driven decoder -> compared with the AST");
    let defs = parse_schema(concat!("@REPO@", "/slice/Compiler"));
    for (name, files) in CORPUS {
        rep.case(true, || name.to_string());
        let texts: Vec<&str> = files.iter().map(|f| f.0).collect();
        let flags: Vec<bool> = files.iter().map(|f| f.1).collect();
        let name2 = name.to_string();
        let out = std::panic::catch_unwind(std::panic::AssertUnwindSafe(|| -> Result<Vec<String>, String> {
            let options = SliceOptions::default();
            let mut state = slicec::compile_from_strings(&texts, Some(&options));
            if state.diagnostics.has_errors() { return Err(format!("corpus program '{name2}' does not compile")); }
            for (f, s) in state.files.iter_mut().zip(&flags) { f.is_source = *s; }
            let bytes = encode_generate_code_request(&state.files).map_err(|e| format!("encoding failed: {e:?}"))?;
            let mut d = Dec { b: &bytes, p: 0 };
            let op = d.string()?;
            let sources = d.value(&defs, &Ty::Seq(Box::new(Ty::Named("SliceFile".into()))))?;
            let references = d.value(&defs, &Ty::Seq(Box::new(Ty::Named("SliceFile".into()))))?;
            let mut problems = vec![];
            if op != "generateCode" { problems.push(format!("operation name {op:?}")); }
            if d.p != bytes.len() { problems.push(format!("{} byte(s) left over after the reference files", bytes.len() - d.p)); }
            // every entity that exists in a transmitted file (scoped identifiers of definitions and their members)
            let mut entities = BTreeSet::new();
            for f in state.files.iter().filter(|f| f.module.is_some()) {
                for def in &f.contents {
                    let (id, members): (String, Vec<String>) = match def {
                        Definition::Struct(x) => (x.borrow().parser_scoped_identifier(), x.borrow().fields().iter().map(|m| m.parser_scoped_identifier()).collect()),
                        Definition::Interface(x) => (x.borrow().parser_scoped_identifier(), x.borrow().operations().iter().map(|m| m.parser_scoped_identifier()).collect()),
                        Definition::Enum(x) => (x.borrow().parser_scoped_identifier(), x.borrow().enumerators().iter().map(|m| m.parser_scoped_identifier()).collect()),
                        Definition::CustomType(x) => (x.borrow().parser_scoped_identifier(), vec![]),
                        Definition::TypeAlias(x) => (x.borrow().parser_scoped_identifier(), vec![]),
                    };
                    entities.insert(id);
                    entities.extend(members);
                }
            }
            let want_src: Vec<&slicec::slice_file::SliceFile> = state.files.iter().filter(|f| f.is_source && f.module.is_some()).collect();
            let want_ref: Vec<&slicec::slice_file::SliceFile> = state.files.iter().filter(|f| !f.is_source && f.module.is_some()).collect();
            let mut ctx = Ctx { problems, entities: &entities, file: String::new() };
            for (label, got, want) in [("source", sources.seq(), want_src), ("reference", references.seq(), want_ref)] {
                ctx.file = format!("{label} files");
                ctx.eq("count", got.len(), want.len());
                for (g, w) in got.iter().zip(want) { check_file(&mut ctx, g, w); }
            }
            Ok(ctx.problems)
        }));
        match out {
            Err(_) => rep.counterexample(name, "a request that decodes", "PANIC"),
            Ok(Err(e)) => rep.counterexample(name, "a request that decodes completely per the shipped schema", &e),
            Ok(Ok(problems)) => for p in problems { rep.counterexample(&format!("{name} :: {}", p.split(": decoded").next().unwrap_or(&p)), "decoded content == compiled program", &p); },
        }
    }
    rep.finish()
}
