//! C09 (bounded stand-in): spans point at the text they are about -- checked WITHOUT a reference
//! tokenizer, through diagnostics and identifiers that name the text they cover.
//!
//! Fillers (every string of length <= 2 over {a, e-acute, CJK, TAB, space, `{`, `\"`, `\\`}) are put BEFORE
//! a checked element on the same line -- inside a string literal, a block comment, a doc comment, between
//! tokens -- so that any column drift (bytes vs characters, an escape counted wrong, a tab) shows. Checked:
//!   * E033 "no element with identifier 'X' exists": the text under the span is X;
//!   * BrokenDocLink "no element named 'X' exists in scope": the text under the span is X;
//!   * Deprecated "'X' is deprecated": the text under the span is X;
//!   * every struct / field identifier: the text under `identifier.span` is the identifier;
//!   * every span: start <= end, inside the file, on character positions;
//!   * a directive cut short at the end of its line is reported ON that line.
use crate::Report;
use slicec::grammar::*;
use slicec::slice_file::Span;
use slicec::slice_options::SliceOptions;

pub(crate) fn text_at(src: &str, span: &Span) -> Option<String> {
    let lines: Vec<&str> = src.split('\n').collect();
    if span.start.row == 0 || span.end.row == 0 || span.start.row > span.end.row || span.end.row > lines.len() { return None; }
    if span.start.row == span.end.row && span.start.col > span.end.col { return None; }
    let mut out = String::new();
    for row in span.start.row..=span.end.row {
        let chars: Vec<char> = lines[row - 1].trim_end_matches('\r').chars().collect();
        let a = if row == span.start.row { span.start.col } else { 1 };
        let b = if row == span.end.row { span.end.col } else { chars.len() + 1 };
        if a == 0 || b == 0 || a > chars.len() + 1 || b > chars.len() + 1 || a > b { return None; }
        out.extend(&chars[a - 1..b - 1]);
        if row != span.end.row { out.push('\n'); }
    }
    Some(out)
}

fn quoted(msg: &str) -> Option<String> {
    let a = msg.find('\'')?;
    let b = msg[a + 1..].find('\'')?;
    Some(msg[a + 1..a + 1 + b].to_owned())
}

pub fn run() -> i32 {
    let mut rep = Report::new(
        "spans",
        "every filler of length <= 2 over 8 characters in 7 placements before a checked element; the text under the span of E033 / BrokenDocLink / Deprecated diagnostics and of struct and field identifiers must be the name they are about; all spans well-formed; truncated directives reported on their own line; 16 ill-formed programs whose subject is a middle sibling: each diagnostic's span covers the element it names",
    );
    let alpha = ["a", "é", "日", "\t", " ", "{", "\\\"", "\\\\"];
    let mut fillers: Vec<String> = vec![String::new()];
    for a in alpha { fillers.push(a.to_string()); }
    for a in alpha { for b in alpha { fillers.push(format!("{a}{b}")); } }
    // (name, prefix, suffix, filler allowed to contain these)
    let contexts: [(&str, &str, &str, &str); 7] = [
        ("string literal before, same line", "module M\n[deprecated(\"", "\")] struct Old {} struct S { m: Missing, o: Old }\n", "all"),
        ("block comment before, same line", "module M\n[deprecated] struct Old {}\n/* ", " */ struct S { m: Missing, o: Old }\n", "noquote"),
        ("doc comment text before a link", "module M\n/// x", " {@link Nope} y\nstruct S { m: bool }\n", "nobrace"),
        ("doc comment second line before a link", "module M\n/// first\n/// ", "z {@link Nope}\nstruct S { m: bool }\n", "nobrace"),
        ("doc comment tag message before a link", "module M\ninterface I {\n    /// @param p: ", " {@link Nope}\n    op(p: bool)\n}\nstruct S { m: bool }\n", "nobrace"),
        ("line comment above", "module M\n// ", "\nstruct S { m: Missing }\n", "all"),
        ("white space between tokens", "module M\nstruct S {", " m: Missing }\n", "blank"),
    ];
    let options = SliceOptions::default();
    for (name, pre, post, allowed) in contexts {
        for f in &fillers {
            let ok = match allowed {
                "noquote" => !f.contains('"') && !f.contains('\\'),
                "nobrace" => !f.contains('{') && !f.contains('\\') && !f.contains('\t'),
                "blank" => f.chars().all(|c| c == ' ' || c == '\t'),
                _ => true,
            };
            if !ok { continue; }
            let text = format!("{pre}{f}{post}");
            let label = format!("{name}: {:?}", text);
            rep.case(!f.is_empty(), || label.clone());
            let t2 = text.clone();
            let opts = &options;
            let out = std::panic::catch_unwind(std::panic::AssertUnwindSafe(move || {
                let state = slicec::compile_from_strings(&[&t2], Some(opts));
                let mut problems: Vec<String> = vec![];
                let mut seen = (false, false);
                for d in state.diagnostics.into_inner().iter() {
                    let Some(span) = d.span() else { continue };
                    let Some(under) = text_at(&t2, span) else {
                        problems.push(format!("{}: span {}:{}..{}:{} is not a well-formed range of character positions inside the file", d.code(), span.start.row, span.start.col, span.end.row, span.end.col));
                        continue;
                    };
                    let code = d.code().to_owned();
                    if code == "E033" || code == "BrokenDocLink" || code == "Deprecated" {
                        if code == "E033" { seen.0 = true; }
                        if code == "BrokenDocLink" { seen.1 = true; }
                        if let Some(q) = quoted(&d.message()) {
                            let name = q.rsplit("::").next().unwrap_or(&q).to_owned();
                            if under != q && under != name {
                                problems.push(format!("{code} is about '{q}' but its span {}:{}..{}:{} covers {:?}", span.start.row, span.start.col, span.end.row, span.end.col, under));
                            }
                        }
                    }
                }
                if let Ok(s) = state.ast.find_element::<Struct>("M::S") {
                    match text_at(&t2, s.identifier.span()) {
                        Some(u) if u == "S" => {}
                        other => problems.push(format!("identifier S: its span covers {:?}", other)),
                    }
                    for field in s.fields() {
                        match text_at(&t2, field.identifier.span()) {
                            Some(u) if u == field.identifier() => {}
                            other => problems.push(format!("field identifier {}: its span covers {:?}", field.identifier(), other)),
                        }
                    }
                } else {
                    problems.push("struct M::S was not produced".to_owned());
                }
                (problems, seen)
            }));
            match out {
                Err(_) => rep.counterexample(&label, "spans", "PANIC"),
                Ok((problems, seen)) => {
                    if !problems.is_empty() { rep.counterexample(&label, "every span covers the text it is about", &problems.join("; ")); }
                    else if !name.starts_with("doc comment") && !seen.0 { rep.counterexample(&label, "an E033 diagnostic about 'Missing'", "none"); }
                    else if name.starts_with("doc comment") && !seen.1 { rep.counterexample(&label, "a BrokenDocLink lint about 'Nope'", "none"); }
                }
            }
        }
    }
    // truncated directives: the error is reported on the directive's own line
    for (directive, row) in [("#if (FOO", 2usize), ("#if A &&", 2), ("#define", 2), ("#if !", 2), ("#undef", 2)] {
        for eol in ["\n", "\r\n"] {
            let text = format!("module M{eol}{directive}{eol}struct S {{}}{eol}#endif{eol}");
            let label = format!("truncated directive: {:?}", text);
            rep.case(true, || label.clone());
            let t2 = text.clone();
            let opts = &options;
            let out = std::panic::catch_unwind(std::panic::AssertUnwindSafe(move || {
                let state = slicec::compile_from_strings(&[&t2], Some(opts));
                state.diagnostics.into_inner().iter().filter_map(|d| d.span().map(|s| (d.code().to_owned(), s.start.row, s.start.col, s.end.row))).collect::<Vec<_>>()
            }));
            match out {
                Err(_) => rep.counterexample(&label, "diagnostics", "PANIC"),
                Ok(ds) => {
                    if let Some((code, r, c, _)) = ds.first() {
                        if *r != row { rep.counterexample(&label, &format!("the first diagnostic on row {row} (the directive's line)"), &format!("{code} at {r}:{c}")); }
                    } else {
                        rep.counterexample(&label, "a syntax error", "no diagnostic with a span");
                    }
                }
            }
        }
    }
    // ---- tight spans of whole elements: the span starts at the first token of the declaration proper (after doc comment and attributes),
    //      and ends on a token of the element -- in every combination of the optional keywords / tags / return types next to the captures
    {
        let cases: Vec<(&str, Vec<(&str, &str, &str)>)> = vec![
            // (program, [(kind, scoped identifier, the text its span must cover)])
            ("module M\n/// doc\n[foo::bar] unchecked enum U { A }\n[foo::bar] compact enum C { A(x: bool) }\n/// d\n[a::b]\n  unchecked enum U2 : uint8 { A }\n[a::b] enum P { A }\n",
                vec![("enum", "M::U", "unchecked enum U"), ("enum", "M::C", "compact enum C"), ("enum", "M::U2", "unchecked enum U2"), ("enum", "M::P", "enum P")]),
            ("module M\ninterface I {\n    /// d\n    [a::b] plain(x: bool)   // trailing comment\n\n    idempotent idem()\n    [a::b] idempotent ret(x: bool) -> string // c\n    tup() -> (a: bool, b: bool)\n    last()\n}\n",
                vec![("operation", "M::I::plain", "plain(x: bool)"), ("operation", "M::I::idem", "idempotent idem()"), ("operation", "M::I::ret", "idempotent ret(x: bool) -> string"), ("operation", "M::I::tup", "tup() -> (a: bool, b: bool)"), ("operation", "M::I::last", "last()")]),
            ("module M\ninterface I {\n    one() ->   string\n    two() -> tag(1) string?\n    three() ->\tstream uint8\n    four() -> tag(2) stream string?\n}\n",
                vec![("return", "M::I::one", "string"), ("return", "M::I::two", "tag(1) string?"), ("return", "M::I::three", "stream uint8"), ("return", "M::I::four", "tag(2) stream string?")]),
            ("module M\n/// d\n[a::b] compact struct CS { x: bool }\n[a::b] struct PS { /// f\n [a::b] tag(1) t: bool?, [a::b] u: bool }\n",
                vec![("struct", "M::CS", "compact struct CS"), ("struct", "M::PS", "struct PS"), ("field", "M::PS::t", "tag(1) t: bool?"), ("field", "M::PS::u", "u: bool")]),
        ];
        for (text, wants) in cases {
            rep.case(true, || format!("tight spans: {text:?}"));
            let t2 = text.to_owned();
            let w2: Vec<(String, String)> = wants.iter().map(|(k, id, _)| (k.to_string(), id.to_string())).collect();
            let out = std::panic::catch_unwind(move || {
                let state = slicec::compile_from_strings(&[&t2], Some(&SliceOptions::default()));
                let errors = state.diagnostics.has_errors();
                let spans: Vec<Option<Span>> = w2.iter().map(|(k, id)| match k.as_str() {
                    "enum" => state.ast.find_element::<Enum>(id).ok().map(|e| e.span().clone()),
                    "operation" => state.ast.find_element::<Operation>(id).ok().map(|e| e.span().clone()),
                    "return" => state.ast.find_element::<Operation>(id).ok().and_then(|o| o.return_members().first().map(|r| r.span().clone())),
                    "struct" => state.ast.find_element::<Struct>(id).ok().map(|e| e.span().clone()),
                    _ => state.ast.find_element::<Field>(id).ok().map(|e| e.span().clone()),
                }).collect();
                (errors, spans)
            });
            match out {
                Err(_) => rep.counterexample(text, "spans", "PANIC"),
                Ok((errors, spans)) => {
                    if errors { rep.counterexample(text, "a well-formed program", "error diagnostics"); continue; }
                    for ((kind, id, want), sp) in wants.iter().zip(spans) {
                        let got = sp.as_ref().and_then(|s| text_at(text, s));
                        if got.as_deref() != Some(*want) { rep.counterexample(text, &format!("the span of {kind} {id} covers exactly {want:?}"), &format!("{got:?} ({:?})", sp.map(|s| (s.start.row, s.start.col, s.end.row, s.end.col)))); }
                    }
                }
            }
        }
    }
    // ---- a diagnostic points at the element it is ABOUT (not at a neighbour): ill-formed programs where the subject is neither the
    //      first nor the last of its siblings; for each reported code, the text under the diagnostic's span
    {
        let cases: Vec<(&str, Vec<(&str, &str)>)> = vec![
            // (program, [(code, text its span must cover)]) in the order reported
            ("module M\ninterface I {\n    op(first: bool, s: stream int32, i: int32, name: string)\n}\n", vec![("E013", "s: stream int32")]),
            ("module M\ninterface I {\n    op() -> (first: bool, s: stream int32, i: int32, name: string)\n}\n", vec![("E013", "s: stream int32")]),
            ("module M\ninterface I {\n    op(a: bool, s: stream int32, t: stream bool, u: stream string)\n}\n", vec![("E013", "s: stream int32"), ("E013", "t: stream bool"), ("E029", "s: stream int32"), ("E029", "t: stream bool")]),
            ("module M\nstruct S { a: bool, tag(1) b: bool?, tag(2) c: bool, tag(3) d: bool? }\n", vec![("E016", "tag(2) c: bool")]),
            ("module M\nstruct S { a: bool, tag(1) b: bool?, tag(1) c: bool?, tag(3) d: bool? }\n", vec![("E012", "tag(1) c: bool?")]),
            ("module M\nstruct S { a: bool, b: bool, a: string, d: bool }\n", vec![("E010", "a")]),
            ("module M\nenum E : uint8 { A, B = 300, C = 1, D }\n", vec![("E020", "B = 300")]),
            ("module M\nenum E : uint8 { A = 1, B = 2, C = 1, D }\n", vec![("E022", "C = 1"), ("E022", "D")]),
            ("module M\ncompact struct S { a: bool, tag(1) b: bool?, c: bool }\n", vec![("E015", "tag(1) b: bool?")]),
            ("module M\nstruct K { a: bool }\nstruct S { a: bool, d: Dictionary<float32, bool>, c: bool }\n", vec![("E005", "float32")]),
            ("module M\ninterface I {\n    a()\n    [oneway] b() -> bool\n    c()\n}\n", vec![("E023", "oneway")]),
            ("module M\ninterface I {\n    a()\n    [compress(Nope)] b()\n    c()\n}\n", vec![("E027", "compress(Nope)")]),
            ("module M\ninterface B { a()\n b()\n c() }\ninterface I : B {\n    x()\n    b()\n    y()\n}\n", vec![("E011", "b")]),
            ("module M\nstruct S { a: bool, b: Missing, c: bool }\n", vec![("E033", "Missing")]),
            ("module M\nstruct T {}\ninterface I {}\nstruct S { a: bool, b: I, c: bool }\ninterface J : T {}\n", vec![("E017", "I"), ("E017", "T")]),
            ("module M\ninterface I {\n    /// @param q: nope\n    /// @returns: nothing\n    /// @param p: yes\n    op(p: bool)\n}\n", vec![("IncorrectDocComment", "@param q"), ("IncorrectDocComment", "@returns: nothing")]),
        ];
        for (text, wants) in cases {
            rep.case(true, || format!("subject spans: {text:?}"));
            let t2 = text.to_owned();
            let out = std::panic::catch_unwind(move || {
                let state = slicec::compile_from_strings(&[&t2], Some(&SliceOptions::default()));
                state.diagnostics.into_inner().iter().map(|d| (d.code().to_owned(), d.span().and_then(|s| text_at(&t2, s)), d.span().map(|s| (s.start.row, s.start.col)))).collect::<Vec<_>>()
            });
            match out {
                Err(_) => rep.counterexample(text, "diagnostics", "PANIC"),
                Ok(got) => {
                    // the span covers the element named -- or a non-empty part of it (a tighter span inside the element is as good)
                    let char_offset = |row: usize, col: usize| -> usize { text.split('\n').take(row - 1).map(|l| l.chars().count() + 1).sum::<usize>() + col - 1 };
                    let chars: Vec<char> = text.chars().collect();
                    let inside = |want: &str, at: (usize, usize), got: &str| -> bool {
                        let w: Vec<char> = want.chars().collect();
                        let o = char_offset(at.0, at.1);
                        (0..chars.len().saturating_sub(w.len()) + 1).any(|i| chars[i..i + w.len()] == w[..] && i <= o && o + got.chars().count() <= i + w.len())
                    };
                    let ok = got.len() == wants.len() && got.iter().zip(&wants).all(|((gc, gt, gp), (wc, wt))| gc == wc && match (gt, gp) { (Some(t), Some(p)) => t == wt || (!t.trim().is_empty() && inside(wt, *p, t)), _ => false });
                    if !ok { rep.counterexample(text, &format!("{wants:?} (each span covering the element named, or a non-empty part of it)"), &format!("{:?}", got.iter().map(|g| (g.0.clone(), g.1.clone())).collect::<Vec<_>>())); }
                }
            }
        }
    }
    rep.finish()
}
