//! C02 (bounded stand-in): the AST says exactly what the source says, whatever the layout.
//!
//! Programs are built from a small generative MODEL (structs, enums with explicit values in every base and
//! implicit numbering, variant enums, interfaces with bases / idempotent / tags / optionals / streams / return
//! tuples, custom types, aliases, attributes with escaped string arguments incl. foreign-prefixed ones, nested
//! type expressions), rendered to text in 7 LAYOUTS (canonical; optional commas omitted; all on one line; a
//! token per line with tabs; ordinary comments between tokens (also with multi-byte characters, `*` and `/` inside); CRLF; backslash-escaped identifiers) and
//! compiled by the REAL compiler. A canonical dump of the AST (library API) must equal the dump of the model:
//! every definition, member, modifier, tag, optionality, enumerator value, attribute and the full structure of
//! every type expression, in source order and nothing else -- and no diagnostic.
use crate::Report;
use slicec::grammar::attributes::{Deprecated, Unparsed};
use slicec::grammar::*;
use slicec::slice_options::SliceOptions;

#[derive(Clone)]
enum Tok { T(String), Id(String), OptComma, NL }
fn t(s: &str) -> Tok { Tok::T(s.to_owned()) }

#[derive(Clone)]
struct Attr { directive: &'static str, args: Vec<&'static str> } // args are the VALUES (unescaped)
#[derive(Clone)]
struct Member { attrs: Vec<Attr>, name: &'static str, tag: Option<u32>, stream: bool, ty: &'static str, ty_attrs: Vec<Attr> }
#[derive(Clone)]
enum Ret { None, Single(&'static str), Tuple(Vec<Member>) }
#[derive(Clone)]
struct Op { attrs: Vec<Attr>, name: &'static str, idempotent: bool, params: Vec<Member>, ret: Ret }
#[derive(Clone)]
struct Enumerator { attrs: Vec<Attr>, name: &'static str, literal: Option<&'static str>, value: i128, fields: Option<Vec<Member>> }
#[derive(Clone)]
enum Def {
    Struct { attrs: Vec<Attr>, name: &'static str, compact: bool, fields: Vec<Member> },
    Enum { attrs: Vec<Attr>, name: &'static str, compact: bool, unchecked: bool, underlying: Option<&'static str>, enumerators: Vec<Enumerator> },
    Interface { attrs: Vec<Attr>, name: &'static str, bases: Vec<&'static str>, ops: Vec<Op> },
    Custom { attrs: Vec<Attr>, name: &'static str },
    Alias { attrs: Vec<Attr>, name: &'static str, ty: &'static str, ty_attrs: Vec<Attr> },
}

fn m(name: &'static str, ty: &'static str) -> Member { Member { attrs: vec![], name, tag: None, stream: false, ty, ty_attrs: vec![] } }
fn mt(name: &'static str, tag: u32, ty: &'static str) -> Member { Member { tag: Some(tag), ..m(name, ty) } }
fn a(directive: &'static str, args: &[&'static str]) -> Attr { Attr { directive, args: args.to_vec() } }
fn e(name: &'static str, literal: Option<&'static str>, value: i128) -> Enumerator { Enumerator { attrs: vec![], name, literal, value, fields: None } }

// ---- rendering to tokens ---------------------------------------------------------------------------------
fn escape(arg: &str) -> String {
    // an argument is written bare when it is a plain identifier, otherwise as a string literal with `\"` and `\\` escaped
    if !arg.is_empty() && arg.chars().all(|c| c.is_ascii_alphanumeric() || c == '_') && arg.chars().next().unwrap().is_ascii_alphabetic() { arg.to_owned() }
    else { format!("\"{}\"", arg.replace('\\', "\\\\").replace('"', "\\\"")) }
}
fn attr_toks(out: &mut Vec<Tok>, attrs: &[Attr], file_level: bool) {
    for at in attrs {
        out.push(t(if file_level { "[[" } else { "[" }));
        out.push(t(at.directive));
        if !at.args.is_empty() {
            out.push(t("("));
            for (i, x) in at.args.iter().enumerate() { if i > 0 { out.push(t(",")); } out.push(t(&escape(x))); }
            out.push(t(")"));
        }
        out.push(t(if file_level { "]]" } else { "]" }));
    }
}
fn type_toks(out: &mut Vec<Tok>, ty: &str) {
    // split a type expression into its tokens: identifiers / keywords, `<`, `>`, `,`, `?`, `::`
    let mut cur = String::new();
    let mut chars = ty.chars().peekable();
    while let Some(c) = chars.next() {
        match c {
            '<' | '>' | ',' | '?' => { if !cur.is_empty() { out.push(t(&cur)); cur.clear(); } out.push(t(&c.to_string())); }
            ' ' => { if !cur.is_empty() { out.push(t(&cur)); cur.clear(); } }
            ':' => { if !cur.is_empty() { out.push(t(&cur)); cur.clear(); } chars.next(); out.push(t("::")); }
            c => cur.push(c),
        }
    }
    if !cur.is_empty() { out.push(t(&cur)); }
}
fn member_toks(out: &mut Vec<Tok>, mb: &Member) {
    attr_toks(out, &mb.attrs, false);
    if let Some(tag) = mb.tag { out.push(t("tag")); out.push(t("(")); out.push(t(&tag.to_string())); out.push(t(")")); }
    out.push(Tok::Id(mb.name.to_owned()));
    out.push(t(":"));
    if mb.stream { out.push(t("stream")); }
    attr_toks(out, &mb.ty_attrs, false);
    type_toks(out, mb.ty);
    out.push(Tok::OptComma);
}
fn def_toks(out: &mut Vec<Tok>, d: &Def) {
    match d {
        Def::Struct { attrs, name, compact, fields } => {
            attr_toks(out, attrs, false);
            if *compact { out.push(t("compact")); }
            out.push(t("struct")); out.push(Tok::Id(name.to_string())); out.push(t("{")); out.push(Tok::NL);
            for f in fields { member_toks(out, f); out.push(Tok::NL); }
            out.push(t("}")); out.push(Tok::NL);
        }
        Def::Enum { attrs, name, compact, unchecked, underlying, enumerators } => {
            attr_toks(out, attrs, false);
            if *compact { out.push(t("compact")); }
            if *unchecked { out.push(t("unchecked")); }
            out.push(t("enum")); out.push(Tok::Id(name.to_string()));
            if let Some(u) = underlying { out.push(t(":")); out.push(t(u)); }
            out.push(t("{")); out.push(Tok::NL);
            for en in enumerators {
                attr_toks(out, &en.attrs, false);
                out.push(Tok::Id(en.name.to_owned()));
                if let Some(fs) = &en.fields { out.push(t("(")); for f in fs { member_toks(out, f); } out.push(t(")")); }
                if let Some(l) = en.literal { out.push(t("=")); if let Some(rest) = l.strip_prefix('-') { out.push(t("-")); out.push(t(rest)); } else { out.push(t(l)); } }
                out.push(Tok::OptComma); out.push(Tok::NL);
            }
            out.push(t("}")); out.push(Tok::NL);
        }
        Def::Interface { attrs, name, bases, ops } => {
            attr_toks(out, attrs, false);
            out.push(t("interface")); out.push(Tok::Id(name.to_string()));
            for (i, b) in bases.iter().enumerate() { out.push(t(if i == 0 { ":" } else { "," })); type_toks(out, b); }
            out.push(t("{")); out.push(Tok::NL);
            for op in ops {
                attr_toks(out, &op.attrs, false);
                if op.idempotent { out.push(t("idempotent")); }
                out.push(Tok::Id(op.name.to_owned())); out.push(t("("));
                for p in &op.params { member_toks(out, p); }
                out.push(t(")"));
                match &op.ret {
                    Ret::None => {}
                    Ret::Single(ty) => { out.push(t("->")); type_toks(out, ty); }
                    Ret::Tuple(ms) => { out.push(t("->")); out.push(t("(")); for p in ms { member_toks(out, p); } out.push(t(")")); }
                }
                out.push(Tok::NL);
            }
            out.push(t("}")); out.push(Tok::NL);
        }
        Def::Custom { attrs, name } => { attr_toks(out, attrs, false); out.push(t("custom")); out.push(Tok::Id(name.to_string())); out.push(Tok::NL); }
        Def::Alias { attrs, name, ty, ty_attrs } => { attr_toks(out, attrs, false); out.push(t("typealias")); out.push(Tok::Id(name.to_string())); out.push(t("=")); attr_toks(out, ty_attrs, false); type_toks(out, ty); out.push(Tok::NL); }
    }
}

const LAYOUTS: &[&str] = &["canonical", "optional commas omitted", "one line", "a token per line, tabs", "ordinary comments between tokens", "CRLF", "escaped identifiers"];
fn layout(toks: &[Tok], which: usize) -> String {
    let mut s = String::new();
    let mut n = 0;
    for tk in toks {
        match tk {
            Tok::T(x) | Tok::Id(x) => {
                let x = if which == 6 && matches!(tk, Tok::Id(_)) { format!("\\{x}") } else { x.clone() };
                s.push_str(&x);
                n += 1;
                s.push_str(match which { 3 => "\n\t", 4 => if n % 6 == 0 { " /* größer 名前 * / */ " } else if n % 3 == 0 { " /* c */ " } else if n % 14 == 0 { " // 冪等 é // c\n" } else if n % 7 == 0 { " // c\n" } else { " " }, _ => " " });
            }
            Tok::OptComma => { if which != 1 { while s.ends_with(' ') { s.pop(); } s.push_str(", "); } }
            Tok::NL => s.push_str(match which { 2 => " ", 5 => "\r\n", _ => "\n" }),
        }
    }
    s
}

// ---- canonical dumps ----------------------------------------------------------------------------------------
fn dump_attrs_model(attrs: &[Attr]) -> String { format!("[{}]", attrs.iter().map(|x| format!("{}({})", x.directive, x.args.iter().map(|y| format!("{y:?}")).collect::<Vec<_>>().join(","))).collect::<Vec<_>>().join(" ")) }
fn dump_attrs_ast(attrs: Vec<&Attribute>) -> String {
    format!("[{}]", attrs.iter().map(|x| {
        let (d, args): (String, Vec<String>) = if let Some(u) = x.downcast::<Unparsed>() { (u.directive.clone(), u.args.clone()) }
            else if let Some(dp) = x.downcast::<Deprecated>() { ("deprecated".to_owned(), dp.reason.iter().cloned().collect()) }
            else { (x.kind.directive().to_owned(), vec!["?".to_owned()]) };
        format!("{}({})", d, args.iter().map(|y| format!("{y:?}")).collect::<Vec<_>>().join(","))
    }).collect::<Vec<_>>().join(" "))
}
fn norm_ty(ty: &str) -> String { ty.replace(' ', "").replace(',', ", ") }
fn dump_member_model(kind: &str, mb: &Member) -> String { format!("    {kind} {} tag={:?} stream={} type={} tyattrs={} attrs={}", mb.name, mb.tag, mb.stream, norm_ty(mb.ty), dump_attrs_model(&mb.ty_attrs), dump_attrs_model(&mb.attrs)) }
fn ast_ty(tr: &TypeRef) -> String {
    // the written structure of the type expression: named types by the identifier WRITTEN (possibly scoped)
    let base = match tr.concrete_type() {
        Types::Sequence(s) => format!("Sequence<{}>", ast_ty(&s.element_type)),
        Types::Dictionary(d) => format!("Dictionary<{}, {}>", ast_ty(&d.key_type), ast_ty(&d.value_type)),
        Types::ResultType(r) => format!("Result<{}, {}>", ast_ty(&r.success_type), ast_ty(&r.failure_type)),
        Types::Primitive(p) => p.kind().to_owned(),
        Types::Struct(x) => x.parser_scoped_identifier(), Types::Enum(x) => x.parser_scoped_identifier(), Types::CustomType(x) => x.parser_scoped_identifier(),
    };
    format!("{base}{}", if tr.is_optional { "?" } else { "" })
}
fn dump_field_ast(kind: &str, f: &Field) -> String { format!("    {kind} {} tag={:?} stream=false type={} tyattrs={} attrs={}", f.identifier(), f.tag.as_ref().map(|x| x.value), ast_ty(&f.data_type), dump_attrs_ast(f.data_type.attributes()), dump_attrs_ast(f.attributes())) }
fn dump_param_ast(kind: &str, f: &Parameter) -> String { format!("    {kind} {} tag={:?} stream={} type={} tyattrs={} attrs={}", f.identifier(), f.tag.as_ref().map(|x| x.value), f.is_streamed, ast_ty(&f.data_type), dump_attrs_ast(f.data_type.attributes()), dump_attrs_ast(f.attributes())) }

fn dump_model(defs: &[Def], scoped: &dyn Fn(&str) -> String) -> Vec<String> {
    let ty = |s: &str| -> String {
        // qualify the named types the way the AST reports them (scoped identifiers); primitives / wrappers as written
        let mut out = String::new();
        let mut cur = String::new();
        for c in norm_ty(s).chars() {
            if c.is_ascii_alphanumeric() || c == '_' || c == ':' { cur.push(c); } else { if !cur.is_empty() { out.push_str(&scoped(&cur)); cur.clear(); } out.push(c); }
        }
        if !cur.is_empty() { out.push_str(&scoped(&cur)); }
        out
    };
    let mem = |kind: &str, mb: &Member| dump_member_model(kind, &Member { ty: Box::leak(ty(mb.ty).into_boxed_str()), ..mb.clone() });
    let mut out = vec![];
    for d in defs {
        match d {
            Def::Struct { attrs, name, compact, fields } => { out.push(format!("struct {name} compact={compact} attrs={}", dump_attrs_model(attrs))); for f in fields { out.push(mem("field", f)); } }
            Def::Enum { attrs, name, compact, unchecked, underlying, enumerators } => {
                out.push(format!("enum {name} compact={compact} unchecked={unchecked} underlying={:?} attrs={}", underlying, dump_attrs_model(attrs)));
                for en in enumerators { out.push(format!("  enumerator {} value={} explicit={} attrs={}", en.name, en.value, en.literal.is_some(), dump_attrs_model(&en.attrs))); if let Some(fs) = &en.fields { for f in fs { out.push(mem("efield", f)); } } }
            }
            Def::Interface { attrs, name, bases, ops } => {
                out.push(format!("interface {name} bases={:?} attrs={}", bases.iter().map(|b| scoped(b)).collect::<Vec<_>>(), dump_attrs_model(attrs)));
                for op in ops {
                    out.push(format!("  operation {} idempotent={} attrs={}", op.name, op.idempotent, dump_attrs_model(&op.attrs)));
                    for p in &op.params { out.push(mem("param", p)); }
                    match &op.ret { Ret::None => {}, Ret::Single(tyv) => out.push(mem("return", &m("returnValue", tyv))), Ret::Tuple(ms) => for p in ms { out.push(mem("return", p)); } }
                }
            }
            Def::Custom { attrs, name } => out.push(format!("custom {name} attrs={}", dump_attrs_model(attrs))),
            Def::Alias { attrs, name, ty: tyv, ty_attrs } => out.push(format!("alias {name} type={} tyattrs={} attrs={}", ty(tyv), dump_attrs_model(ty_attrs), dump_attrs_model(attrs))),
        }
    }
    out
}
fn dump_ast(file: &slicec::slice_file::SliceFile) -> Vec<String> {
    let mut out = vec![];
    for d in &file.contents {
        match d {
            Definition::Struct(s) => { let s = s.borrow(); out.push(format!("struct {} compact={} attrs={}", s.identifier(), s.is_compact, dump_attrs_ast(s.attributes()))); for f in s.fields() { out.push(dump_field_ast("field", f)); } }
            Definition::Enum(en) => {
                let en = en.borrow();
                out.push(format!("enum {} compact={} unchecked={} underlying={:?} attrs={}", en.identifier(), en.is_compact, en.is_unchecked, en.underlying.as_ref().map(|u| u.definition().kind()), dump_attrs_ast(en.attributes())));
                for x in en.enumerators() {
                    out.push(format!("  enumerator {} value={} explicit={} attrs={}", x.identifier(), x.value(), matches!(x.value, EnumeratorValue::Explicit(_)), dump_attrs_ast(x.attributes())));
                    if x.fields.is_some() { for f in x.fields() { out.push(dump_field_ast("efield", f)); } }
                }
            }
            Definition::Interface(i) => {
                let i = i.borrow();
                out.push(format!("interface {} bases={:?} attrs={}", i.identifier(), i.base_interfaces().iter().map(|b| b.parser_scoped_identifier()).collect::<Vec<_>>(), dump_attrs_ast(i.attributes())));
                for op in i.operations() {
                    out.push(format!("  operation {} idempotent={} attrs={}", op.identifier(), op.is_idempotent, dump_attrs_ast(op.attributes())));
                    for p in op.parameters() { out.push(dump_param_ast("param", p)); }
                    for p in op.return_members() { out.push(dump_param_ast("return", p)); }
                }
            }
            Definition::CustomType(c) => { let c = c.borrow(); out.push(format!("custom {} attrs={}", c.identifier(), dump_attrs_ast(c.attributes()))); }
            Definition::TypeAlias(al) => { let al = al.borrow(); out.push(format!("alias {} type={} tyattrs={} attrs={}", al.identifier(), ast_ty(&al.underlying), dump_attrs_ast(al.underlying.attributes()), dump_attrs_ast(al.attributes()))); }
        }
    }
    out
}

fn programs() -> Vec<(&'static str, Vec<Def>)> {
    let mut ps: Vec<(&'static str, Vec<Def>)> = vec![
        ("structs: tags, optionals, nested type expressions, attributes with escapes", vec![
            Def::Custom { attrs: vec![a("cs::type", &["System.Guid"])], name: "Guid" },
            Def::Struct { attrs: vec![], name: "Empty", compact: false, fields: vec![] },
            Def::Struct { attrs: vec![a("foo::bar", &["a", "b c", "say \"hi\"", "back\\slash", "C:\\generated\\", "Größe 日本", "\\"]), a("deprecated", &["old"])], name: "S", compact: false, fields: vec![
                m("a", "bool"), mt("b", 0, "int32?"), mt("c", 2147483647, "Sequence<Dictionary<string, Sequence<Guid?>>>?"),
                Member { attrs: vec![a("x::y", &[])], ty_attrs: vec![a("cs::type", &["List"])], ..m("d", "Sequence<Result<Empty, varuint62>>") }, m("e", "M::Empty"), m("f", "::M::Guid?") ] },
            Def::Struct { attrs: vec![], name: "C", compact: true, fields: vec![m("only", "Empty")] },
        ]),
        ("enums: explicit values in every base, implicit numbering after them, negative values, unchecked, underlying types", vec![
            Def::Enum { attrs: vec![], name: "E1", compact: false, unchecked: false, underlying: Some("int32"), enumerators: vec![e("A", None, 0), e("B", None, 1), e("C", Some("10"), 10), e("D", None, 11), e("E", Some("0x1F"), 31), e("F", None, 32), e("G", Some("0b101"), 5), e("H", None, 6), e("I", Some("-7"), -7), e("J", None, -6), e("K", Some("1_000"), 1000), e("L", Some("-0x80000000"), -2147483648)] },
            Def::Enum { attrs: vec![a("a::b", &["x"])], name: "E2", compact: false, unchecked: true, underlying: Some("uint8"), enumerators: vec![Enumerator { attrs: vec![a("e::f", &[])], ..e("Only", Some("255"), 255) }] },
            Def::Enum { attrs: vec![], name: "E3", compact: false, unchecked: true, underlying: Some("int64"), enumerators: vec![] },
            Def::Enum { attrs: vec![], name: "E4", compact: false, unchecked: false, underlying: Some("int64"), enumerators: vec![e("Min", Some("-9223372036854775808"), -9223372036854775808), e("Next", None, -9223372036854775807), e("Max", Some("9223372036854775807"), 9223372036854775807)] },
        ]),
        ("variant enums: fields, tags, compact", vec![
            Def::Enum { attrs: vec![], name: "V", compact: false, unchecked: false, underlying: None, enumerators: vec![e("P", None, 0), Enumerator { fields: Some(vec![m("a", "bool"), mt("b", 3, "string?")]), ..e("Q", None, 1) }, Enumerator { fields: Some(vec![]), ..e("R", Some("7"), 7) }, Enumerator { fields: Some(vec![m("c", "Sequence<bool>")]), ..e("T", None, 8) }] },
            Def::Enum { attrs: vec![], name: "W", compact: true, unchecked: false, underlying: None, enumerators: vec![Enumerator { fields: Some(vec![m("x", "int8")]), ..e("One", None, 0) }, Enumerator { fields: Some(vec![m("y", "string"), m("z", "V")]), ..e("Two", None, 1) }] },
            Def::Enum { attrs: vec![], name: "X", compact: false, unchecked: true, underlying: None, enumerators: vec![e("Solo", None, 0)] },
        ]),
        ("interfaces: bases, idempotent, tags, optionals, streams, return forms", vec![
            Def::Struct { attrs: vec![], name: "Arg", compact: false, fields: vec![] },
            Def::Interface { attrs: vec![], name: "Base1", bases: vec![], ops: vec![] },
            Def::Interface { attrs: vec![], name: "Base2", bases: vec!["Base1"], ops: vec![Op { attrs: vec![], name: "ping", idempotent: false, params: vec![], ret: Ret::None }] },
            Def::Interface { attrs: vec![a("i::attr", &["v"])], name: "I", bases: vec!["Base2", "M::Base1"], ops: vec![
                Op { attrs: vec![a("o::p", &[])], name: "op1", idempotent: true, params: vec![m("a", "bool"), mt("b", 1, "Arg?"), Member { stream: true, ..m("c", "uint8") }], ret: Ret::Tuple(vec![m("r", "int32"), mt("s", 2, "string?"), Member { stream: true, ..m("t", "Arg") }]) },
                Op { attrs: vec![], name: "op2", idempotent: false, params: vec![Member { attrs: vec![a("p::a", &["1x"])], ty_attrs: vec![a("t::a", &[])], ..m("x", "Sequence<Arg>") }], ret: Ret::Single("Dictionary<string, Arg?>") },
                Op { attrs: vec![], name: "op3", idempotent: false, params: vec![Member { stream: true, ..m("only", "Arg?") }], ret: Ret::Single("Arg?") },
                ] },
        ]),
        ("aliases and keywords used as attribute arguments", vec![
            Def::Struct { attrs: vec![a("kw::struct", &["enum", "module", "tag"])], name: "K", compact: false, fields: vec![] },
            Def::Alias { attrs: vec![a("al::ias", &[])], name: "A1", ty: "Sequence<K>", ty_attrs: vec![a("cs::type", &["Foo<Bar>"])] },
            Def::Alias { attrs: vec![], name: "A2", ty: "Dictionary<varint32, Result<K, string>>", ty_attrs: vec![] },
            Def::Struct { attrs: vec![], name: "UsesAliases", compact: false, fields: vec![m("k", "K?")] },
        ]),
    ];
    // every tag / optional assignment over <= 2 members, every member count 0..=3
    let names = ["m0", "m1", "m2"];
    let mut small: Vec<Def> = vec![];
    let shapes: [(Option<u32>, &'static str); 4] = [(None, "bool"), (None, "bool?"), (Some(0), "string?"), (Some(5), "int32?")];
    let mut k = 0;
    for n in 0..=3usize {
        let combos = shapes.len().pow(n as u32);
        for c in 0..combos {
            if n == 3 && c % 7 != 0 { continue; }
            let mut fields = vec![];
            let mut cc = c;
            let mut used: Vec<u32> = vec![];
            for i in 0..n { let (tag, ty) = shapes[cc % shapes.len()]; cc /= shapes.len(); let tag = tag.map(|x| { let mut x = x; while used.contains(&x) { x += 10; } used.push(x); x }); fields.push(Member { tag, ..m(names[i], ty) }); }
            k += 1;
            small.push(Def::Struct { attrs: vec![], name: Box::leak(format!("G{k}").into_boxed_str()), compact: false, fields });
        }
    }
    ps.push(("every tag / optional assignment over small member lists", small));
    ps
}

pub fn run() -> i32 {
    let mut rep = Report::new("fidelity", "6 model programs (every definition kind; enumerator values in decimal / hex / binary / underscores / negative with implicit numbering after them; tags 0 and 2^31-1; nested type expressions; attributes with escaped arguments; every tag/optional assignment over <= 3 members) x 7 layouts; canonical dump of the AST == dump of the model, no diagnostic; + 2 files with conditional sections x 3 command-line symbol sets x 4 neighbouring files that #define/#undef x 3 positions: the file's definitions are what they are when it is compiled alone");
    for (name, defs) in programs() {
        let mut toks = vec![t("module"), t("M"), Tok::NL];
        for d in &defs { def_toks(&mut toks, d); }
        let local: Vec<&str> = defs.iter().map(|d| match d { Def::Struct { name, .. } | Def::Enum { name, .. } | Def::Interface { name, .. } | Def::Custom { name, .. } | Def::Alias { name, .. } => *name }).collect();
        let aliases: Vec<(&str, &str)> = defs.iter().filter_map(|d| if let Def::Alias { name, ty, .. } = d { Some((*name, *ty)) } else { None }).collect();
        let scoped = move |id: &str| -> String {
            let bare = id.trim_start_matches("::").trim_start_matches("M::");
            if local.contains(&bare) { format!("M::{bare}") } else { id.to_owned() }
        };
        let _ = aliases;
        let want = dump_model(&defs, &scoped);
        for (li, lname) in LAYOUTS.iter().enumerate() {
            let text = layout(&toks, li);
            let label = format!("{name} / layout: {lname}");
            rep.case(true, || label.clone());
            let t2 = text.clone();
            let out = std::panic::catch_unwind(move || {
                let options = SliceOptions::default();
                let state = slicec::compile_from_strings(&[&t2], Some(&options));
                let dump = if state.diagnostics.has_errors() { vec![] } else { dump_ast(&state.files[0]) };
                let diags: Vec<String> = state.into_diagnostics(&options).iter().map(|d| format!("{}: {}", d.code(), d.message())).collect();
                (dump, diags)
            });
            match out {
                Err(_) => rep.counterexample(&format!("{label}\n{text}"), "an AST", "PANIC"),
                Ok((got, diags)) => {
                    if !diags.is_empty() { rep.counterexample(&format!("{label}\n{text}"), "no diagnostic for a model program", &diags.join(" | ")); }
                    else if got != want {
                        let i = got.iter().zip(&want).position(|(g, w)| g != w).unwrap_or(got.len().min(want.len()));
                        rep.counterexample(&format!("{label}\n{text}"), &format!("line {i}: {:?}", want.get(i)), &format!("line {i}: {:?} ({} vs {} lines)", got.get(i), got.len(), want.len()));
                    }
                }
            }
        }
    }
    // ---- a file's definition list is made from THAT file's text (and the command line's symbols) alone: compiled after / before other
    //      files that #define / #undef symbols, it is what it is when compiled alone
    {
        let subjects = [
            "module Sub\n#if DEBUG\nstruct Extra { a: bool }\n#endif\nstruct Always { b: int32 }\n#if !DEBUG\nenum NoDebug { A }\n#endif\n",
            "#if DEBUG && OTHER\nmodule WithBoth\n#elif DEBUG || OTHER\nmodule WithOne\n#else\nmodule WithNone\n#endif\nstruct S { a: bool }\n",
        ];
        let neighbours = [
            "#define DEBUG\nmodule Pre\nstruct P {}\n", "#define DEBUG\n#define OTHER\nmodule Pre\n", "#undef DEBUG\nmodule Pre\nstruct P {}\n", "#define OTHER\n#undef DEBUG\nmodule Pre\n",
        ];
        for subject in subjects {
            for cli in [vec![], vec!["DEBUG".to_owned()], vec!["DEBUG".to_owned(), "OTHER".to_owned()]] {
                let dump_of = |texts: Vec<&str>, index: usize| -> Result<(Vec<String>, String), String> {
                    let mut o = SliceOptions::default();
                    o.defined_symbols = cli.clone();
                    let texts: Vec<String> = texts.iter().map(|x| x.to_string()).collect();
                    std::panic::catch_unwind(move || {
                        let refs: Vec<&str> = texts.iter().map(|x| x.as_str()).collect();
                        let state = slicec::compile_from_strings(&refs, Some(&o));
                        let module = state.files[index].module.as_ref().map(|m| m.borrow().nested_module_identifier().to_owned()).unwrap_or_default();
                        (dump_ast(&state.files[index]), module)
                    }).map_err(|_| "PANIC".to_owned())
                };
                let alone = dump_of(vec![subject], 0);
                for nb in neighbours {
                    for (place, texts, index) in [("after", vec![nb, subject], 1usize), ("before", vec![subject, nb], 0), ("between", vec![nb, subject, nb.replace("Pre", "Post").as_str()].iter().map(|x| *x).collect::<Vec<&str>>(), 1)] {
                        let label = format!("file isolation: -D {cli:?}; subject {place} {nb:?}\n{subject}");
                        rep.case(true, || label.clone());
                        let got = dump_of(texts.clone(), index);
                        if got != alone { rep.counterexample(&label, &format!("what the file gives when compiled alone: {alone:?}"), &format!("{got:?}")); }
                    }
                }
            }
        }
    }
    rep.finish()
}
