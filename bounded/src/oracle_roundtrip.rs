//! C10 (bounded stand-in): the encoding round-trips and matches the wire format.
//!
//! The contracts decide what the encoders append and what the decoders may accept (`Ok ==> is_dec`); that the real
//! decoder ACCEPTS what the real encoder wrote -- the completeness half of the round trip -- is under no contract
//! for the composite types. Oracle, from the property's sentence, for every value below: encode with the real
//! encoder (growable target and fixed-slice target), decode with the real decoder both with the encoding at the
//! very END of the buffer and followed by other bytes: the value comes back, exactly the bytes written are
//! consumed; fixed-width numbers are little-endian two's complement / IEEE-754; a variable-width integer occupies
//! the shortest of 1, 2, 4, 8 bytes that holds the value shifted left by two, the length code in the two low
//! bits; values outside the 62-bit range are refused.
use crate::Report;
use slice_codec::buffer::slice::{SliceInputSource, SliceOutputTarget};
use slice_codec::buffer::vec::VecOutputTarget;
use slice_codec::buffer::InputSource;
use slice_codec::decoder::Decoder;
use slice_codec::encoder::Encoder;
use std::collections::{BTreeMap, HashMap};

fn enc_vec(f: &dyn Fn(&mut Encoder<VecOutputTarget<'_>>) -> slice_codec::Result<()>) -> Result<Vec<u8>, String> {
    let mut v: Vec<u8> = vec![];
    {
        let mut e = Encoder::new(VecOutputTarget::from(&mut v));
        f(&mut e).map_err(|e| e.to_string())?;
    }
    Ok(v)
}
fn enc_slice(f: &dyn Fn(&mut Encoder<SliceOutputTarget<'_>>) -> slice_codec::Result<()>, cap: usize) -> Result<Vec<u8>, String> {
    let mut buf = vec![0xAAu8; cap];
    let used;
    {
        let mut e = Encoder::new(SliceOutputTarget::from(&mut buf[..]));
        f(&mut e).map_err(|e| e.to_string())?;
        used = cap - slice_codec::buffer::OutputTarget::remaining(&*e);
    }
    buf.truncate(used);
    Ok(buf)
}

/// decode `bytes` (a) alone and (b) followed by a tail; returns the value and the bytes consumed, or what went wrong
fn dec<T: PartialEq + std::fmt::Debug>(bytes: &[u8], f: &dyn Fn(&mut Decoder<SliceInputSource<'_>>) -> slice_codec::Result<T>, want: &T) -> Result<(), String> {
    for tail in [&[][..], &[0x5Au8, 0x00, 0xFF][..]] {
        let mut all = bytes.to_vec();
        all.extend_from_slice(tail);
        let mut d = Decoder::new(SliceInputSource::from(&all[..]));
        match f(&mut d) {
            Err(e) => return Err(format!("decoding the encoder's output {} fails: {e}", if tail.is_empty() { "at the end of the buffer" } else { "followed by other bytes" })),
            Ok(v) => {
                if &v != want { return Err(format!("decoded {v:?}")); }
                let consumed = all.len() - d.remaining();
                if consumed != bytes.len() { return Err(format!("consumed {consumed} bytes, {} were written", bytes.len())); }
            }
        }
    }
    Ok(())
}

fn hex(b: &[u8]) -> String {
    b.iter().map(|x| format!("{x:02x}")).collect()
}

macro_rules! roundtrip {
    ($rep:expr, $name:expr, $val:expr, $ty:ty, $extra:expr) => {{
        let v: $ty = $val;
        let label = format!("{} {:?}", $name, v);
        $rep.case(true, || label.clone());
        let r = std::panic::catch_unwind(|| {
            let a = enc_vec(&|e| e.encode(&v))?;
            let b = enc_slice(&|e| e.encode(&v), a.len() + 3)?;
            if a != b { return Err(format!("growable target wrote {} but the fixed-slice target wrote {}", hex(&a), hex(&b))); }
            let check: &dyn Fn(&$ty, &[u8]) -> Result<(), String> = &$extra;
            check(&v, &a)?;
            dec::<$ty>(&a, &|d| d.decode::<$ty>(), &v)
        });
        match r {
            Err(_) => $rep.counterexample(&label, "the value back", "PANIC"),
            Ok(Err(m)) => $rep.counterexample(&label, "decode(encode(x)) == x, consuming exactly the bytes written, in the wire format", &m),
            Ok(Ok(())) => {}
        }
    }};
}

fn no_extra<T>(_: &T, _: &[u8]) -> Result<(), String> {
    Ok(())
}

fn var_width(shifted_bits_needed: u32) -> usize {
    // value << 2 must fit: 1 byte holds 6 value bits, 2 bytes 14, 4 bytes 30, 8 bytes 62
    if shifted_bits_needed <= 6 { 1 } else if shifted_bits_needed <= 14 { 2 } else if shifted_bits_needed <= 30 { 4 } else { 8 }
}

pub fn run() -> i32 {
    let deep = std::env::var("VERIF_BOUNDED_DEEP").is_ok();
    let mut rep = Report::new("roundtrip", "bool; every u8 / i8 / u16 / i16; u32 / i32 / u64 / i64 / f32 / f64 at every power of two +-2, the limits, NaN payloads, infinities, subnormals; every variable-width signed and unsigned integer of magnitude < 2^15 (deep: < 2^22), all within 64 of every power of two up to 2^63 and of the 62-bit limits (outside: refused); sizes; strings (empty, ASCII, every UTF-8 width, lengths across the 1 -> 2 byte size prefix); sequences of u8 / bool / i32 / String / empty strings / nested, empty and non-empty; both dictionary types; each encoded by both targets and decoded at the END of the buffer and before other bytes");
    // ---- bool and fixed-width numbers -------------------------------------------------------------------------
    roundtrip!(rep, "bool", false, bool, |_: &bool, b: &[u8]| if b == [0] { Ok(()) } else { Err(format!("encoded as {}", hex(b))) });
    roundtrip!(rep, "bool", true, bool, |_: &bool, b: &[u8]| if b == [1] { Ok(()) } else { Err(format!("encoded as {}", hex(b))) });
    macro_rules! fixed { ($ty:ty, $vals:expr) => { for v in $vals { roundtrip!(rep, stringify!($ty), v, $ty, |v: &$ty, b: &[u8]| if b == v.to_le_bytes() { Ok(()) } else { Err(format!("encoded as {}, little-endian is {}", hex(b), hex(&v.to_le_bytes()))) }); } }; }
    fixed!(u8, 0..=u8::MAX);
    fixed!(i8, i8::MIN..=i8::MAX);
    fixed!(u16, 0..=u16::MAX);
    fixed!(i16, i16::MIN..=i16::MAX);
    let mut u64s: Vec<u64> = vec![0, u64::MAX];
    for p in 0..64u32 { for d in [-2i64, -1, 0, 1, 2] { u64s.push((1u64 << p).wrapping_add(d as u64)); } }
    fixed!(u64, u64s.clone());
    fixed!(i64, u64s.iter().map(|x| *x as i64).chain(u64s.iter().map(|x| (*x as i64).wrapping_neg())));
    fixed!(u32, u64s.iter().map(|x| *x as u32));
    fixed!(i32, u64s.iter().map(|x| *x as u32 as i32).chain(u64s.iter().map(|x| (*x as u32 as i32).wrapping_neg())));
    for bits in [0u32, 1, 0x7f80_0000, 0xff80_0000, 0x7fc0_0001, 0xffc1_2345, 0x0000_0001, 0x007f_ffff, 0x3f80_0000, 0xc2f6_e979, 0x8000_0000] {
        let v = f32::from_bits(bits);
        let label = format!("f32 bits {bits:#x}");
        rep.case(true, || label.clone());
        let a = enc_vec(&|e| e.encode(v)).unwrap_or_default();
        if a != bits.to_le_bytes() { rep.counterexample(&label, &format!("IEEE-754 little-endian {}", hex(&bits.to_le_bytes())), &hex(&a)); continue; }
        let mut d = Decoder::new(SliceInputSource::from(&a[..]));
        match d.decode::<f32>() { Ok(x) if x.to_bits() == bits && d.remaining() == 0 => {}, other => rep.counterexample(&label, "the same bit pattern back", &format!("{other:?}")) }
    }
    for bits in [0u64, 1, 0x7ff0_0000_0000_0000, 0xfff0_0000_0000_0000, 0x7ff8_0000_0000_0001, 0xfff8_1234_5678_9abc, 0x000f_ffff_ffff_ffff, 0x3ff0_0000_0000_0000, 0x8000_0000_0000_0000] {
        let v = f64::from_bits(bits);
        let label = format!("f64 bits {bits:#x}");
        rep.case(true, || label.clone());
        let a = enc_vec(&|e| e.encode(v)).unwrap_or_default();
        if a != bits.to_le_bytes() { rep.counterexample(&label, &format!("IEEE-754 little-endian {}", hex(&bits.to_le_bytes())), &hex(&a)); continue; }
        let mut d = Decoder::new(SliceInputSource::from(&a[..]));
        match d.decode::<f64>() { Ok(x) if x.to_bits() == bits && d.remaining() == 0 => {}, other => rep.counterexample(&label, "the same bit pattern back", &format!("{other:?}")) }
    }
    // ---- variable-width integers -----------------------------------------------------------------------------
    let lim: i64 = if deep { 1 << 22 } else { 1 << 15 };
    let mut ints: Vec<i64> = (-lim..=lim).collect();
    for p in 0..63u32 { for d in -64i64..=64 { ints.push((1i64 << p).wrapping_add(d)); ints.push((1i64 << p).wrapping_neg().wrapping_add(d)); } }
    for d in -64i64..=64 { ints.push(i64::MAX.wrapping_add(d)); ints.push(i64::MIN.wrapping_add(d)); }
    ints.sort();
    ints.dedup();
    const VMIN: i64 = -(1i64 << 61);
    const VMAX: i64 = (1i64 << 61) - 1;
    for &v in &ints {
        let label = format!("varint {v}");
        rep.case(v.unsigned_abs() > 31, || label.clone());
        let r = enc_vec(&|e| e.encode_varint(v));
        if v < VMIN || v > VMAX {
            if r.is_ok() { rep.counterexample(&label, "refused: outside the 62-bit range", &format!("encoded as {}", hex(&r.unwrap()))); }
            continue;
        }
        let Ok(a) = r else { rep.counterexample(&label, "an encoding: the value is in range", &r.unwrap_err()); continue; };
        // bits needed for a two's-complement value: magnitude bits + sign bit
        let need = if v >= 0 { 64 - v.leading_zeros() + 1 } else { 64 - v.leading_ones() + 1 };
        let w = var_width(need);
        let want: Vec<u8> = (((v as i128) << 2) as i64 | [0i64, 1, 2, 3][[1, 2, 4, 8].iter().position(|x| *x == w).unwrap()]).to_le_bytes()[..w].to_vec();
        if a != want { rep.counterexample(&label, &format!("{} (the shortest of 1/2/4/8 bytes holding value << 2, length code in the two low bits)", hex(&want)), &hex(&a)); continue; }
        if let Err(m) = dec::<i64>(&a, &|d| d.decode_varint::<i64>(), &v) { rep.counterexample(&label, "the value back, consuming exactly the bytes written", &m); }
    }
    for &v in &ints {
        let u = v as u64;
        let label = format!("varuint {u}");
        rep.case(u > 63, || label.clone());
        let r = enc_vec(&|e| e.encode_varuint(u));
        if u > (1u64 << 62) - 1 {
            if r.is_ok() { rep.counterexample(&label, "refused: outside the 62-bit range", &format!("encoded as {}", hex(&r.unwrap()))); }
            continue;
        }
        let Ok(a) = r else { rep.counterexample(&label, "an encoding: the value is in range", &r.unwrap_err()); continue; };
        let w = var_width(64 - u.leading_zeros());
        let want: Vec<u8> = ((u << 2) | [0u64, 1, 2, 3][[1, 2, 4, 8].iter().position(|x| *x == w).unwrap()]).to_le_bytes()[..w].to_vec();
        if a != want { rep.counterexample(&label, &format!("{} (shortest width, length code in the two low bits)", hex(&want)), &hex(&a)); continue; }
        if let Err(m) = dec::<u64>(&a, &|d| d.decode_varuint::<u64>(), &u) { rep.counterexample(&label, "the value back, consuming exactly the bytes written", &m); }
        if u <= u32::MAX as u64 {
            let us = u as usize;
            let s = enc_vec(&|e| e.encode_size(us));
            match s { Ok(sb) if sb == a => { if let Err(m) = dec::<usize>(&sb, &|d| d.decode_size(), &us) { rep.counterexample(&format!("size {us}"), "the size back", &m); } }, other => rep.counterexample(&format!("size {us}"), &format!("a size is a variable-width unsigned integer: {}", hex(&a)), &format!("{other:?}")) }
        }
    }
    // ---- strings ------------------------------------------------------------------------------------------------
    let mut strings: Vec<String> = vec![String::new(), "a".into(), "hello, world".into(), "é".into(), "日本".into(), "\u{1F600}".into(), "\u{0}\u{7f}".into(), "a\u{80}\u{7ff}\u{800}\u{ffff}\u{10000}\u{10ffff}".into()];
    for n in [62usize, 63, 64, 65, 100, 16383, 16384] { strings.push("x".repeat(n)); strings.push("é".repeat(n / 2)); }
    for s in &strings {
        roundtrip!(rep, "string", s.clone(), String, |v: &String, b: &[u8]| if b.ends_with(v.as_bytes()) && b.len() == v.len() + var_width(64 - (v.len() as u64).leading_zeros()) { Ok(()) } else { Err(format!("{} bytes written for a {}-byte string", b.len(), v.len())) });
    }
    // ---- sequences: empty, one element per remaining byte (u8 / bool / empty strings), wider elements, nested -----------
    for n in [0usize, 1, 2, 3, 63, 64, 65, 300] {
        roundtrip!(rep, "Vec<u8>", (0..n).map(|i| (i * 7) as u8).collect::<Vec<u8>>(), Vec<u8>, |v: &Vec<u8>, b: &[u8]| if b.ends_with(v) { Ok(()) } else { Err("elements are not written one after the other".into()) });
        roundtrip!(rep, "Vec<bool>", (0..n).map(|i| i % 3 == 0).collect::<Vec<bool>>(), Vec<bool>, no_extra);
        roundtrip!(rep, "Vec<i32>", (0..n).map(|i| (i as i32).wrapping_mul(-77_777_777)).collect::<Vec<i32>>(), Vec<i32>, no_extra);
        roundtrip!(rep, "Vec<u64>", (0..n).map(|i| (i as u64) << 40).collect::<Vec<u64>>(), Vec<u64>, no_extra);
        if n <= 65 {
            roundtrip!(rep, "Vec<String> (empty strings)", vec![String::new(); n], Vec<String>, no_extra);
            roundtrip!(rep, "Vec<String>", (0..n).map(|i| "ab".repeat(i % 4)).collect::<Vec<String>>(), Vec<String>, no_extra);
            roundtrip!(rep, "Vec<Vec<u16>>", (0..n).map(|i| (0..(i % 3) as u16).collect::<Vec<u16>>()).collect::<Vec<Vec<u16>>>(), Vec<Vec<u16>>, no_extra);
            roundtrip!(rep, "Vec<Vec<Vec<u8>>>", (0..n % 5).map(|i| vec![vec![i as u8; i], vec![]]).collect::<Vec<Vec<Vec<u8>>>>(), Vec<Vec<Vec<u8>>>, no_extra);
        }
    }
    // ---- dictionaries ----------------------------------------------------------------------------------------------
    for n in [0usize, 1, 2, 5, 64, 70] {
        roundtrip!(rep, "BTreeMap<u8,u8>", (0..n).map(|i| (i as u8, (i * 3) as u8)).collect::<BTreeMap<u8, u8>>(), BTreeMap<u8, u8>, no_extra);
        roundtrip!(rep, "HashMap<u8,u8>", (0..n).map(|i| (i as u8, (i * 3) as u8)).collect::<HashMap<u8, u8>>(), HashMap<u8, u8>, no_extra);
        roundtrip!(rep, "HashMap<String,Vec<i16>>", (0..n).map(|i| (format!("k{i}"), vec![i as i16; i % 3])).collect::<HashMap<String, Vec<i16>>>(), HashMap<String, Vec<i16>>, no_extra);
        roundtrip!(rep, "BTreeMap<i32,String>", (0..n).map(|i| (i as i32 - 3, "v".repeat(i % 4))).collect::<BTreeMap<i32, String>>(), BTreeMap<i32, String>, no_extra);
    }
    rep.finish()
}
