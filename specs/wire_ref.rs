// Executable reference ("oracle") for the Slice wire format, written from the property statement
// (C10) and the public encoding rules -- NOT from slice-codec's code. Plain Rust without std
// calls that do the work for us: no to_le_bytes / leading_zeros. Included verbatim by
//   * the Kani harness crate (kani/src/lib.rs: `include!`), where the real encoder/decoder are
//     proved equal to it over the full machine domain, and
//   * the Verus unit `codec_wire` (inside verus!{}), where each function is proved equal to the
//     mathematical spec function the Verus contracts use (specs/wire.rs).
// So: real code == wire_ref (Kani, bit-precise)  and  wire_ref == spec (Verus)  =>  the contracts
// Verus assumes about encode_varint / decode_varint etc. are discharged, not trusted.

/// Byte `i` of the little-endian representation of `x`.
pub fn ref_le_byte(x: u64, i: u32) -> (r: u8)
    requires i < 8,
    ensures r == spec_le_byte(x as nat, i as nat),
{
    proof {
        lemma_pow256_values();
        if i == 0 { assert(((x >> 0u64) & 0xff) == (x / 1) % 256) by(bit_vector); }
        else if i == 1 { assert(((x >> 8u64) & 0xff) == (x / 0x100) % 256) by(bit_vector); }
        else if i == 2 { assert(((x >> 16u64) & 0xff) == (x / 0x1_0000) % 256) by(bit_vector); }
        else if i == 3 { assert(((x >> 24u64) & 0xff) == (x / 0x100_0000) % 256) by(bit_vector); }
        else if i == 4 { assert(((x >> 32u64) & 0xff) == (x / 0x1_0000_0000) % 256) by(bit_vector); }
        else if i == 5 { assert(((x >> 40u64) & 0xff) == (x / 0x100_0000_0000) % 256) by(bit_vector); }
        else if i == 6 { assert(((x >> 48u64) & 0xff) == (x / 0x1_0000_0000_0000) % 256) by(bit_vector); }
        else { assert(((x >> 56u64) & 0xff) == (x / 0x100_0000_0000_0000) % 256) by(bit_vector); }
    }
    ((x >> (8 * i)) & 0xff) as u8
}

/// Number of bytes (1, 2, 4, 8) of the shortest varuint62 encoding of `v`; 0 if not encodable.
pub fn ref_varuint_width(v: u64) -> (r: usize)
    ensures r as nat == spec_varuint_width(v as nat),
{
    if v < 0x40 { 1 } else if v < 0x4000 { 2 } else if v < 0x4000_0000 { 4 } else if v < 0x4000_0000_0000_0000 { 8 } else { 0 }
}

/// Number of bytes of the shortest varint62 encoding of `v`; 0 if not encodable.
pub fn ref_varint_width(v: i64) -> (r: usize)
    ensures r as nat == spec_varint_width(v as int),
{
    if v >= -0x20 && v < 0x20 { 1 }
    else if v >= -0x2000 && v < 0x2000 { 2 }
    else if v >= -0x2000_0000 && v < 0x2000_0000 { 4 }
    else if v >= -0x2000_0000_0000_0000 && v < 0x2000_0000_0000_0000 { 8 }
    else { 0 }
}

/// The two-bit length code stored in the low bits of the first byte.
pub fn ref_width_code(width: usize) -> (r: u64)
    requires width == 1 || width == 2 || width == 4 || width == 8,
    ensures r as nat == spec_width_code(width as nat),
{
    if width == 1 { 0 } else if width == 2 { 1 } else if width == 4 { 2 } else { 3 }
}

/// Width announced by a first byte.
pub fn ref_code_width(first: u8) -> (r: usize)
    ensures r as nat == spec_code_width(first as nat),
{
    let c = first % 4;
    if c == 0 { 1 } else if c == 1 { 2 } else if c == 2 { 4 } else { 8 }
}
