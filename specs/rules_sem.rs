// ---- Language rules, written from the property statement (C04) -------------------------------------
/// integral primitives: the twelve fixed/variable width integer types
pub open spec fn spec_is_integral(p: Primitive) -> bool {
    p is Int8 || p is UInt8 || p is Int16 || p is UInt16 || p is Int32 || p is UInt32 || p is VarInt32 || p is VarUInt32
        || p is Int64 || p is UInt64 || p is VarInt62 || p is VarUInt62
}
pub open spec fn pow2(n: nat) -> int decreases n { if n == 0 { 1 } else { 2 * pow2((n - 1) as nat) } }
/// [-2^(n-1), 2^(n-1)-1] / [0, 2^n - 1]; 32 bits for var(u)int32, 62 bits for var(u)int62
pub open spec fn spec_bounds(p: Primitive) -> Option<(int, int)> {
    match p {
        Primitive::Int8 => Some((-pow2(7), pow2(7) - 1)), Primitive::UInt8 => Some((0, pow2(8) - 1)),
        Primitive::Int16 => Some((-pow2(15), pow2(15) - 1)), Primitive::UInt16 => Some((0, pow2(16) - 1)),
        Primitive::Int32 => Some((-pow2(31), pow2(31) - 1)), Primitive::UInt32 => Some((0, pow2(32) - 1)),
        Primitive::VarInt32 => Some((-pow2(31), pow2(31) - 1)), Primitive::VarUInt32 => Some((0, pow2(32) - 1)),
        Primitive::Int64 => Some((-pow2(63), pow2(63) - 1)), Primitive::UInt64 => Some((0, pow2(64) - 1)),
        Primitive::VarInt62 => Some((-pow2(61), pow2(61) - 1)), Primitive::VarUInt62 => Some((0, pow2(62) - 1)),
        _ => None,
    }
}

/// number of offending elements among the first `n`
pub open spec fn count_bad<T>(items: Seq<T>, bad: spec_fn(T) -> bool, n: int) -> nat
    decreases n,
{
    if n <= 0 { 0 } else { count_bad(items, bad, n - 1) + (if bad(items[n - 1]) { 1nat } else { 0nat }) }
}
/// "at least one error diagnostic" (by kind) -- the program is rejected
pub open spec fn rejected(d: Seq<Diagnostic>) -> bool { exists|i: int| 0 <= i < d.len() && (#[trigger] d[i]).kind is Error }
/// `new` is `old` followed by exactly `n` diagnostics, each of the kind recognised by `is_k`
/// (nothing else is touched): "diagnosed with the code that belongs to the rule, once per violation"
pub open spec fn appended(old_d: Seq<Diagnostic>, new_d: Seq<Diagnostic>, n: nat, is_k: spec_fn(DiagnosticKind) -> bool) -> bool {
    new_d.len() == old_d.len() + n && new_d.subrange(0, old_d.len() as int) =~= old_d
        && forall|j: int| old_d.len() <= j < new_d.len() ==> is_k(#[trigger] new_d[j].kind)
}
/// what a rule's effect means for acceptance: append-only; a violation rejects the program; an
/// earlier rejection stays
pub proof fn lemma_appended(old_d: Seq<Diagnostic>, new_d: Seq<Diagnostic>, n: nat, is_k: spec_fn(DiagnosticKind) -> bool)
    requires appended(old_d, new_d, n, is_k), forall|k: DiagnosticKind| #[trigger] is_k(k) ==> k is Error,
    ensures d_prefix(old_d, new_d), n > 0 ==> rejected(new_d), rejected(old_d) ==> rejected(new_d),
{
    if n > 0 { assert(is_k(new_d[old_d.len() as int].kind)); }
    if rejected(old_d) {
        let i = choose|i: int| 0 <= i < old_d.len() && (#[trigger] old_d[i]).kind is Error;
        assert(new_d[i] == old_d.subrange(0, old_d.len() as int)[i]);
    }
}
pub open spec fn d_prefix(a: Seq<Diagnostic>, b: Seq<Diagnostic>) -> bool { a.len() <= b.len() && b.subrange(0, a.len() as int) =~= a }
pub proof fn lemma_prefix_trans(a: Seq<Diagnostic>, b: Seq<Diagnostic>, c: Seq<Diagnostic>)
    requires d_prefix(a, b), d_prefix(b, c),
    ensures d_prefix(a, c), rejected(a) ==> rejected(c), rejected(b) ==> rejected(c),
{
    assert forall|i: int| 0 <= i < a.len() implies c[i] == a[i] by { assert(b[i] == a[i]); assert(c[i] == b.subrange(0, b.len() as int)[i]); }
    if rejected(a) { let i = choose|i: int| 0 <= i < a.len() && (#[trigger] a[i]).kind is Error; assert(c[i] == a[i]); }
    if rejected(b) { let i = choose|i: int| 0 <= i < b.len() && (#[trigger] b[i]).kind is Error; assert(c[i] == b.subrange(0, b.len() as int)[i]); }
}

pub open spec fn field_targets(fs: Seq<WeakPtr<Field>>) -> Seq<Field> { Seq::new(fs.len(), |i: int| fs[i].target()) }
pub open spec fn is_tagged_field(f: Field) -> bool { f.tag is Some }
pub open spec fn enumerator_targets(es: Seq<WeakPtr<Enumerator>>) -> Seq<Enumerator> { Seq::new(es.len(), |i: int| es[i].target()) }
pub open spec fn has_fields(e: Enumerator) -> bool { e.fields is Some }
/// number of tagged fields of one enumerator
pub open spec fn tagged_fields_of(e: Enumerator) -> nat {
    match e.fields { Some(fs) => count_bad(field_targets(fs@), |f: Field| is_tagged_field(f), fs@.len() as int), None => 0 }
}
/// ... summed over the first `n` enumerators
pub open spec fn tagged_fields_in(es: Seq<Enumerator>, n: int) -> nat
    decreases n,
{
    if n <= 0 { 0 } else { tagged_fields_in(es, n - 1) + tagged_fields_of(es[n - 1]) }
}


// ---- the rules under contract: number of violations (n_*) and the error kind reported (k_*) ------------
pub open spec fn n_s_not_empty(s: Struct) -> nat { if s.is_compact && s.fields@.len() == 0 { 1 } else { 0 } }
pub open spec fn k_s_not_empty() -> spec_fn(DiagnosticKind) -> bool { |k: DiagnosticKind| k is Error && k->Error_0 is CompactStructCannotBeEmpty }
pub open spec fn n_s_no_tags(s: Struct) -> nat { if s.is_compact { count_bad(field_targets(s.fields@), |f: Field| is_tagged_field(f), s.fields@.len() as int) } else { 0 } }
pub open spec fn k_s_no_tags() -> spec_fn(DiagnosticKind) -> bool { |k: DiagnosticKind| k is Error && k->Error_0 is CompactTypeCannotContainTaggedFields }
pub open spec fn n_a_not_optional(a: TypeAlias) -> nat { if a.underlying.is_optional { 1 } else { 0 } }
pub open spec fn k_a_not_optional() -> spec_fn(DiagnosticKind) -> bool { |k: DiagnosticKind| k is Error && k->Error_0 is TypeAliasOfOptional }
pub open spec fn n_e_integral(e: Enum) -> nat { if e.underlying matches Some(u) && !spec_is_integral(prim_of(u)) { 1 } else { 0 } }
pub open spec fn k_e_integral() -> spec_fn(DiagnosticKind) -> bool { |k: DiagnosticKind| k is Error && k->Error_0 is EnumUnderlyingTypeNotSupported }
pub open spec fn n_e_not_optional(e: Enum) -> nat { if e.underlying matches Some(u) && u.is_optional { 1 } else { 0 } }
pub open spec fn k_e_not_optional() -> spec_fn(DiagnosticKind) -> bool { |k: DiagnosticKind| k is Error && k->Error_0 is CannotUseOptionalUnderlyingType }
pub open spec fn n_e_nonempty(e: Enum) -> nat { if !e.is_unchecked && e.enumerators@.len() == 0 { 1 } else { 0 } }
pub open spec fn k_e_nonempty() -> spec_fn(DiagnosticKind) -> bool { |k: DiagnosticKind| k is Error && k->Error_0 is MustContainEnumerators }
pub open spec fn n_e_no_fields(e: Enum) -> nat { count_bad(enumerator_targets(e.enumerators@), |x: Enumerator| has_fields(x), e.enumerators@.len() as int) }
pub open spec fn k_e_no_fields() -> spec_fn(DiagnosticKind) -> bool { |k: DiagnosticKind| k is Error && k->Error_0 is EnumeratorCannotContainFields }
pub open spec fn n_e_compact_mod(e: Enum) -> nat { (if e.is_compact && e.underlying is Some { 1nat } else { 0nat }) + (if e.is_compact && e.is_unchecked { 1nat } else { 0nat }) }
pub open spec fn k_e_compact_mod() -> spec_fn(DiagnosticKind) -> bool { |k: DiagnosticKind| k is Error && k->Error_0 is CannotBeCompact }
pub open spec fn n_e_no_tags(e: Enum) -> nat { if e.is_compact { tagged_fields_in(enumerator_targets(e.enumerators@), e.enumerators@.len() as int) } else { 0 } }
pub open spec fn k_e_no_tags() -> spec_fn(DiagnosticKind) -> bool { |k: DiagnosticKind| k is Error && k->Error_0 is CompactTypeCannotContainTaggedFields }

/// the rules, as predicates of the element: it violates at least one rule under contract
pub open spec fn struct_ill_formed(s: Struct) -> bool { n_s_not_empty(s) > 0 || n_s_no_tags(s) > 0 }
pub open spec fn alias_ill_formed(a: TypeAlias) -> bool { n_a_not_optional(a) > 0 }
/// (enumerator value range and uniqueness are NOT under contract: closures)
/// RULE: enumerator values are unique -- one error for every enumerator whose value was used by an earlier one
pub open spec fn e_value(e: Enumerator) -> i128 { spec_value(e.value) }
pub open spec fn dup_at(es: Seq<Enumerator>, i: int) -> bool { exists|j: int| 0 <= j < i && e_value(#[trigger] es[j]) == e_value(es[i]) }
pub open spec fn count_dups(es: Seq<Enumerator>, n: int) -> nat
    decreases n,
{
    if n <= 0 { 0 } else { count_dups(es, n - 1) + (if dup_at(es, n - 1) { 1nat } else { 0nat }) }
}
/// the values of the first `n` enumerators
pub open spec fn seen_values(es: Seq<Enumerator>, n: int) -> Set<i128>
    decreases n,
{
    if n <= 0 { Set::empty() } else { seen_values(es, n - 1).insert(e_value(es[n - 1])) }
}
pub proof fn lemma_seen_contains(es: Seq<Enumerator>, n: int, v: i128)
    requires 0 <= n <= es.len(),
    ensures seen_values(es, n).contains(v) <==> exists|j: int| 0 <= j < n && e_value(#[trigger] es[j]) == v,
    decreases n,
{
    if n > 0 {
        lemma_seen_contains(es, n - 1, v);
        if exists|j: int| 0 <= j < n && e_value(#[trigger] es[j]) == v {
            let j = choose|j: int| 0 <= j < n && e_value(#[trigger] es[j]) == v;
            if j < n - 1 { assert(0 <= j < n - 1 && e_value(es[j]) == v); }
        }
        if seen_values(es, n - 1).contains(v) {
            let j = choose|j: int| 0 <= j < n - 1 && e_value(#[trigger] es[j]) == v;
            assert(0 <= j < n && e_value(es[j]) == v);
        }
        if e_value(es[n - 1]) == v { assert(0 <= n - 1 < n && e_value(es[n - 1]) == v); }
    }
}
pub proof fn lemma_seen_step(es: Seq<Enumerator>, n: int)
    requires 0 <= n < es.len(),
    ensures seen_values(es, n + 1) == seen_values(es, n).insert(e_value(es[n])),
            dup_at(es, n) <==> seen_values(es, n).contains(e_value(es[n])),
{
    lemma_seen_contains(es, n, e_value(es[n]));
}
pub open spec fn n_e_unique(e: Enum) -> nat { count_dups(enumerator_targets(e.enumerators@), e.enumerators@.len() as int) }
pub open spec fn k_e_unique() -> spec_fn(DiagnosticKind) -> bool { |k: DiagnosticKind| k is Error && k->Error_0 is DuplicateEnumeratorValue }
pub open spec fn enum_ill_formed(e: Enum) -> bool {
    n_e_unique(e) > 0 || n_e_integral(e) > 0 || n_e_not_optional(e) > 0 || n_e_nonempty(e) > 0 || n_e_compact_mod(e) > 0 || n_e_no_tags(e) > 0
        || (e.underlying is Some && n_e_no_fields(e) > 0)
}
