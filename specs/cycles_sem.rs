// ---- C05, written from the property statement -------------------------------------------------------
// "a struct or enum (through the fields of its enumerators) contains itself, directly or through other
//  structs and enums, whether the path runs through optional types, sequences, dictionaries (key or value)
//  or results": the EDGES of the containment graph. `cands(t)` = the structs/enums a field of type `t`
// mentions (optional-ness is a flag on the reference, not a wrapper type: `T?` mentions T).
pub open spec fn cands(t: TypeRef) -> Set<Seq<char>>
    decreases typeref_depth(t),
{
    match spec_concrete(&t) {
        Types::Struct(s) => set![struct_sid(*s)],
        Types::Enum(e) => set![enum_sid(*e)],
        Types::ResultType(r) => if typeref_depth(r.success_type) < typeref_depth(t) && typeref_depth(r.failure_type) < typeref_depth(t) {
            cands(r.success_type).union(cands(r.failure_type)) } else { Set::empty() },
        Types::Sequence(s) => if typeref_depth(s.element_type) < typeref_depth(t) { cands(s.element_type) } else { Set::empty() },
        Types::Dictionary(d) => if typeref_depth(d.key_type) < typeref_depth(t) && typeref_depth(d.value_type) < typeref_depth(t) {
            cands(d.key_type).union(cands(d.value_type)) } else { Set::empty() },
        _ => Set::empty(),
    }
}
/// the types mentioned by the first n fields
pub open spec fn cands_fields(fs: Seq<Field>, n: int) -> Set<Seq<char>>
    decreases n,
{
    if n <= 0 { Set::empty() } else { cands_fields(fs, n - 1).union(cands(fs[n - 1].data_type)) }
}
/// the types mentioned by the fields of the first n enumerators
pub open spec fn cands_enumerators(es: Seq<WeakPtr<Enumerator>>, n: int) -> Set<Seq<char>>
    decreases n,
{
    if n <= 0 { Set::empty() } else {
        let e = es[n - 1].target();
        cands_enumerators(es, n - 1).union(cands_fields(e.spec_contents(), e.spec_contents().len() as int))
    }
}
/// "every reported chain is a real path of fields": entry i is a field OF the previous type on the chain (of the
/// type being checked, for the first) whose type MENTIONS the type the entry names
#[verifier::opaque]
pub open spec fn is_path(cur: Seq<char>, st: Seq<(String, &Field)>) -> bool {
    forall|i: int| 0 <= i < st.len() ==>
        member_owner(*(#[trigger] st[i]).1) == (if i == 0 { cur } else { st[i - 1].0@ })
        && cands(st[i].1.data_type).contains(st[i].0@)
}
/// what was offered at stack depth d (ghost bookkeeping of the search, keyed by depth)
pub open spec fn at_of(m: Map<int, Set<Seq<char>>>, d: int) -> Set<Seq<char>> {
    if m.dom().contains(d) { m[d] } else { Set::empty() }
}
pub open spec fn stack_ids(st: Seq<(String, &Field)>) -> Seq<Seq<char>> {
    st.map_values(|e: (String, &Field)| e.0@)
}
/// by-value loop over an accessor's result: produced + still to come = the container's members, in order
pub open spec fn iter_vals<T>(vals: Seq<T>, done: Seq<&T>, todo: Seq<&T>) -> bool {
    done.len() + todo.len() == vals.len()
        && (forall|i: int| 0 <= i < done.len() ==> *(#[trigger] done[i]) == vals[i])
        && (forall|j: int| 0 <= j < todo.len() ==> *(#[trigger] todo[j]) == vals[done.len() + j])
}

// ---- facts about pushing onto / popping from the dependency stack (used through `broadcast use` at the start of
//      push_to_stack_and_check: no hint is anchored on a statement of that function) --------------------------------
pub broadcast proof fn lemma_ids_push(st: Seq<(String, &Field)>, x: (String, &Field))
    ensures #[trigger] stack_ids(st.push(x)) == stack_ids(st).push(x.0@),
{
    assert(stack_ids(st.push(x)) =~= stack_ids(st).push(x.0@));
}
pub broadcast proof fn lemma_ids_len(st: Seq<(String, &Field)>)
    ensures #[trigger] stack_ids(st).len() == st.len(),
{
}
pub broadcast proof fn lemma_push_nodup(s: Seq<Seq<char>>, a: Seq<char>)
    requires s.no_duplicates(), !s.contains(a),
    ensures #[trigger] s.push(a).no_duplicates(),
{
    assert forall|i: int, j: int| 0 <= i < s.push(a).len() && 0 <= j < s.push(a).len() && i != j implies s.push(a)[i] != s.push(a)[j] by {
        if i < s.len() && j < s.len() { } else if i < s.len() { assert(s.contains(s[i])); } else { assert(s.contains(s[j])); }
    }
}
pub broadcast proof fn lemma_push_contains(s: Seq<Seq<char>>, a: Seq<char>, b: Seq<char>)
    ensures #[trigger] s.push(a).contains(b) <==> (s.contains(b) || a == b),
{
    if s.push(a).contains(b) {
        let i = choose|i: int| 0 <= i < s.push(a).len() && s.push(a)[i] == b;
        if i < s.len() { assert(s[i] == b); assert(s.contains(b)); }
    }
    if s.contains(b) {
        let i = choose|i: int| 0 <= i < s.len() && s[i] == b;
        assert(s.push(a)[i] == b);
    }
    if a == b { assert(s.push(a)[s.len() as int] == b); }
}
pub broadcast proof fn lemma_path_push(cur: Seq<char>, st: Seq<(String, &Field)>, x: (String, &Field))
    requires
        is_path(cur, st),
        member_owner(*x.1) == (if st.len() == 0 { cur } else { st.last().0@ }),
        cands(x.1.data_type).contains(x.0@),
    ensures #[trigger] is_path(cur, st.push(x)),
{
    reveal(is_path);
    assert forall|i: int| 0 <= i < st.push(x).len() implies
        member_owner(*(#[trigger] st.push(x)[i]).1) == (if i == 0 { cur } else { st.push(x)[i - 1].0@ })
        && cands(st.push(x)[i].1.data_type).contains(st.push(x)[i].0@) by {
        if i < st.len() { assert(st.push(x)[i] == st[i]); }
    }
}
pub broadcast proof fn lemma_push_pop<T>(s: Seq<T>, x: T)
    ensures #[trigger] s.push(x).drop_last() == s, s.push(x).subrange(0, s.len() as int) == s,
{
    assert(s.push(x).drop_last() =~= s);
    assert(s.push(x).subrange(0, s.len() as int) =~= s);
}
pub broadcast group cycles_stack_facts {
    lemma_ids_push, lemma_ids_len, lemma_push_nodup, lemma_push_contains, lemma_path_push, lemma_push_pop,
}
