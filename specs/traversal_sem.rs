// ---- Traversal order, written from the property statement (C20) ----------------------------------
// file, then its module, then every definition in source order; container before contents;
// the type of a field / parameter / return member / alias right after its owner, followed by the
// element / key, value / success, failure types nested inside it, to any depth; an unpatched
// reference is presented but not descended into.

/// What a visitor is shown, one event per `visit_x` call, carrying the element itself.
pub enum Ev {
    File(SliceFile), Module(Module), Struct(Struct), Interface(Interface), Enum(Enum), Operation(Operation),
    CustomType(CustomType), TypeAlias(TypeAlias), Field(Field), Parameter(Parameter), Enumerator(Enumerator),
    TypeRef(TypeRef),
}

// finiteness of type nesting (assumed ghost measure `ast_wf`, DESIGN.md section 5): the types nested
// inside a sequence / dictionary / result reference are strictly shallower than the reference.
pub use type_depth_facts::{typeref_depth, spec_concrete};
pub mod type_depth_facts {
    use vstd::prelude::*;
    use super::*;
    pub uninterp spec fn typeref_depth(t: TypeRef) -> nat;
    /// what `TypeRef::concrete_type()` returns for a patched reference (dyn dispatch; trusted accessor)
    pub uninterp spec fn spec_concrete<'a>(t: &'a TypeRef) -> Types<'a>;
    pub broadcast axiom fn axiom_nested_types_shallower(t: &TypeRef)
        ensures
            (#[trigger] spec_concrete(t)) matches Types::Sequence(s) ==> typeref_depth(s.element_type) < typeref_depth(*t),
            spec_concrete(t) matches Types::Dictionary(d) ==> typeref_depth(d.key_type) < typeref_depth(*t) && typeref_depth(d.value_type) < typeref_depth(*t),
            spec_concrete(t) matches Types::ResultType(r) ==> typeref_depth(r.success_type) < typeref_depth(*t) && typeref_depth(r.failure_type) < typeref_depth(*t);
}

pub open spec fn tr_typeref(t: TypeRef) -> Seq<Ev>
    decreases typeref_depth(t),
{
    seq![Ev::TypeRef(t)] + (
        // a reference BY NAME that stands for an anonymous type (an alias) is presented, not unfolded: the types nested inside the
        // alias's type were written once, at the alias, and are presented there -- "nothing is presented twice ... nothing from another file"
        if t.definition is Unpatched || t.is_named_reference { Seq::empty() } else {
            match spec_concrete(&t) {
                Types::ResultType(r) => if typeref_depth(r.success_type) < typeref_depth(t) && typeref_depth(r.failure_type) < typeref_depth(t) {
                    tr_typeref(r.success_type) + tr_typeref(r.failure_type) } else { Seq::empty() },
                Types::Sequence(s) => if typeref_depth(s.element_type) < typeref_depth(t) { tr_typeref(s.element_type) } else { Seq::empty() },
                Types::Dictionary(d) => if typeref_depth(d.key_type) < typeref_depth(t) && typeref_depth(d.value_type) < typeref_depth(t) {
                    tr_typeref(d.key_type) + tr_typeref(d.value_type) } else { Seq::empty() },
                _ => Seq::empty(),
            }
        })
}

pub open spec fn tr_field(f: Field) -> Seq<Ev> { seq![Ev::Field(f)] + tr_typeref(f.data_type) }
pub open spec fn tr_fields(fs: Seq<WeakPtr<Field>>, n: int) -> Seq<Ev>
    decreases n,
{
    if n <= 0 { Seq::empty() } else { tr_fields(fs, n - 1) + tr_field(fs[n - 1].target()) }
}
pub open spec fn tr_parameter(p: Parameter) -> Seq<Ev> { seq![Ev::Parameter(p)] + tr_typeref(p.data_type) }
pub open spec fn tr_parameters(ps: Seq<WeakPtr<Parameter>>, n: int) -> Seq<Ev>
    decreases n,
{
    if n <= 0 { Seq::empty() } else { tr_parameters(ps, n - 1) + tr_parameter(ps[n - 1].target()) }
}
pub open spec fn tr_operation(o: Operation) -> Seq<Ev> {
    seq![Ev::Operation(o)] + tr_parameters(o.parameters@, o.parameters@.len() as int) + tr_parameters(o.return_type@, o.return_type@.len() as int)
}
pub open spec fn tr_operations(os: Seq<WeakPtr<Operation>>, n: int) -> Seq<Ev>
    decreases n,
{
    if n <= 0 { Seq::empty() } else { tr_operations(os, n - 1) + tr_operation(os[n - 1].target()) }
}
pub open spec fn tr_enumerator(e: Enumerator) -> Seq<Ev> {
    seq![Ev::Enumerator(e)] + match e.fields { Some(fs) => tr_fields(fs@, fs@.len() as int), None => Seq::empty() }
}
pub open spec fn tr_enumerators(es: Seq<WeakPtr<Enumerator>>, n: int) -> Seq<Ev>
    decreases n,
{
    if n <= 0 { Seq::empty() } else { tr_enumerators(es, n - 1) + tr_enumerator(es[n - 1].target()) }
}
pub open spec fn tr_struct(s: Struct) -> Seq<Ev> { seq![Ev::Struct(s)] + tr_fields(s.fields@, s.fields@.len() as int) }
pub open spec fn tr_interface(i: Interface) -> Seq<Ev> { seq![Ev::Interface(i)] + tr_operations(i.operations@, i.operations@.len() as int) }
pub open spec fn tr_enum(e: Enum) -> Seq<Ev> { seq![Ev::Enum(e)] + tr_enumerators(e.enumerators@, e.enumerators@.len() as int) }
pub open spec fn tr_custom_type(c: CustomType) -> Seq<Ev> { seq![Ev::CustomType(c)] }
pub open spec fn tr_type_alias(a: TypeAlias) -> Seq<Ev> { seq![Ev::TypeAlias(a)] + tr_typeref(a.underlying) }
pub open spec fn tr_module(m: Module) -> Seq<Ev> { seq![Ev::Module(m)] }
pub open spec fn tr_definition(d: Definition) -> Seq<Ev> {
    match d {
        Definition::Struct(p) => tr_struct(p.target()),
        Definition::Interface(p) => tr_interface(p.target()),
        Definition::Enum(p) => tr_enum(p.target()),
        Definition::CustomType(p) => tr_custom_type(p.target()),
        Definition::TypeAlias(p) => tr_type_alias(p.target()),
    }
}
pub open spec fn tr_definitions(ds: Seq<Definition>, n: int) -> Seq<Ev>
    decreases n,
{
    if n <= 0 { Seq::empty() } else { tr_definitions(ds, n - 1) + tr_definition(ds[n - 1]) }
}
pub open spec fn tr_file(f: SliceFile) -> Seq<Ev> {
    seq![Ev::File(f)] + (match f.module { Some(m) => tr_module(m.target()), None => Seq::empty() })
        + tr_definitions(f.contents@, f.contents@.len() as int)
}

// Trusted accessor standing for `TypeRef::concrete_type()` (Deref to the `dyn Type` pointee and
// dynamic dispatch to AsTypes::concrete_type): a pure function of the reference.
#[verifier::external_body]
pub fn shim_concrete_type<'a>(t: &'a TypeRef) -> (r: Types<'a>)
    ensures r == spec_concrete(t),
{ unimplemented!() }
