// ---- proof support for specs/wire_ref.rs (ties the Kani reference to the Verus spec) -------------
pub proof fn lemma_pow256_values()
    ensures pow256(0) == 1, pow256(1) == 0x100, pow256(2) == 0x1_0000, pow256(3) == 0x100_0000,
            pow256(4) == 0x1_0000_0000, pow256(5) == 0x100_0000_0000, pow256(6) == 0x1_0000_0000_0000,
            pow256(7) == 0x100_0000_0000_0000, pow256(8) == 0x1_0000_0000_0000_0000,
{
    reveal_with_fuel(pow256, 10);
}

/// The Kani harness k_encode_varuint_contract compares the written bytes with
/// `ref_le_byte((v << 2) | code, i)`; the Verus contract says `le_bytes(v*4 + code, w)`. Same number:
pub proof fn lemma_shift_or_is_times4_plus(v: u64, c: u64)
    requires v < 0x4000_0000_0000_0000, c < 4,
    ensures ((v << 2) | c) == v * 4 + c,
{
    assert(((v << 2u64) | c) == v * 4 + c) by(bit_vector)
        requires v < 0x4000_0000_0000_0000u64, c < 4u64;
}

/// The decoder harnesses compute `le_value >> 2`; the Verus contract says `le_value / 4`.
pub proof fn lemma_shr2_is_div4(x: u64)
    ensures (x >> 2) == x / 4,
{
    assert((x >> 2u64) == x / 4) by(bit_vector);
}
