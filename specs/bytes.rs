// ---- byte-sequence helpers used by the buffer / wire contracts (spec only) ---------------------

// `s` with the bytes `b` written at offset `at` (everything else unchanged).
pub open spec fn splice(s: Seq<u8>, at: int, b: Seq<u8>) -> Seq<u8> {
    s.subrange(0, at) + b + s.subrange(at + b.len(), s.len() as int)
}
