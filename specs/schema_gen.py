#!/usr/bin/env python3
"""schema_gen -- generates, on every run, the Verus oracle for the Compiler schema that is shipped to
generator authors (slice/Compiler/{CodeGenerator,SyntaxElements,DocComment}.slice).

For every struct / enum of the schema it emits
    pub open spec fn enc_<T>(v: <RustType>) -> Seq<u8>
following the Slice2 encoding rules:
  * struct: [one bit-sequence byte when the struct has optional fields: bit i = i-th optional field
    present] ++ the fields in schema order (an absent optional field contributes nothing) ++ the
    tagged-field end marker varint32(-1);
  * enum with fields: varint32(discriminant) ++ the enumerator's fields ++ end marker, where the
    discriminant is the enumerator's POSITION in the schema;
  * field types are encoded by the wire-format spec (specs/wire.rs) through the EncodeInto trait
    spec: string, bool, uintN/intN, Sequence<T>, and `varint32?` as varint.
and the ghost `impl EncodeInto for &T { open spec fn enc(self) }` hooks that make the real
impls' trait contract mean "output == old output ++ enc_<T>(value)".

Fields are matched to definition_types.rs BY NAME (camelCase schema name == snake_case Rust name; same
count); the oracle's order is the schema's. Any mismatch, and any construct outside the subset these three files
use, stops the unit with exit 2.
"""
import os
import re
import sys


class SchemaError(Exception):
    pass


def strip_comments(s):
    s = re.sub(r"//[^\n]*", "", s)
    return s


def snake(name):
    name = name.lstrip("\\")
    return re.sub(r"(?<!^)([A-Z])", lambda m: "_" + m.group(1).lower(), name).lower()


def parse_schema(paths):
    structs, enums, aliases, unchecked = {}, {}, {}, {}
    order = []
    for p in paths:
        src = strip_comments(open(p).read())
        src = re.sub(r"\[[^\]]*\]", "", src)          # attributes
        src = re.sub(r"\bmodule\s+\w+", "", src)
        pos = 0
        while True:
            m = re.compile(r"\s*(compact\s+)?(unchecked\s+)?(struct|enum|interface|typealias)\s+(\w+)").match(src, pos)
            if not m:
                if src[pos:].strip():
                    raise SchemaError(f"{p}: cannot parse near {src[pos:pos+60]!r}")
                break
            kind, name = m.group(3), m.group(4)
            pos = m.end()
            if kind == "typealias":
                m2 = re.compile(r"\s*=\s*([^\n]+)").match(src, pos)
                aliases[name] = m2.group(1).strip()
                pos = m2.end()
                continue
            m2 = re.compile(r"\s*(:\s*\w+)?\s*\{").match(src, pos)
            if not m2:
                raise SchemaError(f"{p}: expected '{{' after {name}")
            underlying = (m2.group(1) or "").lstrip(":").strip()
            end = src.index("}", m2.end())
            body = src[m2.end():end]
            pos = end + 1
            if kind == "interface":
                continue
            if m.group(1):
                raise SchemaError(f"{name}: compact types are outside the supported subset")
            if kind == "struct":
                fields = []
                for ln in body.split("\n"):
                    ln = ln.strip().rstrip(",")
                    if not ln:
                        continue
                    fm = re.fullmatch(r"(\\?\w+)\s*:\s*(.+)", ln)
                    if not fm:
                        raise SchemaError(f"{name}: cannot parse field {ln!r}")
                    if re.search(r"\btag\s*\(", ln):
                        raise SchemaError(f"{name}: tagged fields are outside the supported subset")
                    fields.append((fm.group(1), fm.group(2).strip()))
                structs[name] = fields
                order.append(name)
            else:
                if underlying:
                    unchecked[name] = (underlying, [x.strip() for x in body.split("\n") if x.strip()])
                    order.append(name)
                    continue
                variants = []
                for ln in body.split("\n"):
                    ln = ln.strip().rstrip(",")
                    if not ln:
                        continue
                    vm = re.fullmatch(r"(\w+)\s*\(\s*(\w+)\s*:\s*(.+)\)", ln)
                    if not vm:
                        raise SchemaError(f"{name}: only enumerators with exactly one field are supported: {ln!r}")
                    variants.append((vm.group(1), vm.group(2), vm.group(3).strip()))
                enums[name] = variants
                order.append(name)
    return structs, enums, aliases, unchecked, order


def rust_struct_fields(rs_src, name):
    m = re.search(r"pub struct " + name + r"\s*\{(.*?)\n\}", rs_src, re.S)
    if not m:
        raise SchemaError(f"Rust struct {name} not found in definition_types.rs")
    return re.findall(r"pub\s+(\w+)\s*:\s*([^,\n]+)", m.group(1))


def enc_field(expr, ty, aliases):
    """spec expression encoding `expr` (a place of schema type `ty`)"""
    ty = ty.strip()
    opt = ty.endswith("?")
    base = ty[:-1] if opt else ty
    base = aliases.get(base, base) if base in ("EntityId", "TypeId") else base
    if base == "varint32":
        inner = lambda e: f"varint_enc({e} as int)"
    elif base in ("string", "bool", "uint8", "uint16", "uint32", "uint64", "int8", "int16", "int32", "int64") \
            or base.startswith("Sequence<") or re.fullmatch(r"\w+", base):
        inner = lambda e: f"(&{e}).enc()"
    else:
        raise SchemaError(f"unsupported schema type {ty}")
    if opt:
        return f"(match {expr} {{ Some(x) => {inner('x')}, None => Seq::empty() }})"
    return inner(expr)


def generate(repo):
    d = os.path.join(repo, "slice", "Compiler")
    paths = [os.path.join(d, f) for f in ("CodeGenerator.slice", "SyntaxElements.slice", "DocComment.slice")]
    structs, enums, aliases, unchecked, order = parse_schema(paths)
    rs = open(os.path.join(repo, "slicec", "src", "definition_types.rs")).read()
    out = ["// GENERATED by specs/schema_gen.py from slice/Compiler/*.slice on this run -- do not edit.",
           "pub open spec fn tag_end() -> Seq<u8> { varint_enc(-1) }", ""]
    hooks = []
    encoded_here = set(re.findall(r"implement_encode_into_for_struct!\(\s*(\w+)", rs)) | \
        set(re.findall(r"impl EncodeInto for &(\w+)", rs))
    for name in order:
        if name in structs:
            if name not in encoded_here:
                continue   # decode-only types (GeneratedFile, Diagnostic): no encoder to specify
            fields = structs[name]
            rfields = rust_struct_fields(rs, name)
            if len(rfields) != len(fields):
                raise SchemaError(f"{name}: schema has {len(fields)} fields, Rust struct has {len(rfields)}")
            # schema field <-> Rust field BY NAME (camelCase == snake_case); the ORDER of the oracle is
            # the schema's, whatever order the Rust struct declares or encodes its fields in
            byname = {rn: (rn, rt) for (rn, rt) in rfields}
            for (sn, _) in fields:
                if snake(sn) not in byname:
                    raise SchemaError(f"{name}: schema field {sn} has no Rust field named {snake(sn)}")
            rfields = [byname[snake(sn)] for (sn, _) in fields]
            opts = [(i, f) for i, f in enumerate(fields) if f[1].strip().endswith("?")]
            parts = []
            if opts:
                if len(opts) > 8:
                    raise SchemaError(f"{name}: more than 8 optional fields")
                bits = " + ".join(f"(if v.{rfields[i][0]} is Some {{ {1 << k}int }} else {{ 0int }})" for k, (i, _) in enumerate(opts))
                parts.append(f"seq![({bits}) as u8]")
            for (sn, ty), (rn, _) in zip(fields, rfields):
                parts.append(enc_field(f"v.{rn}", ty, aliases))
            parts.append("tag_end()")
            # opaque: only the impl of this very type needs the definition (it reveals it); every other
            # query sees enc_<T> as an uninterpreted function and stays small
            out.append(f"#[verifier::opaque]\npub open spec fn enc_{name}(v: {name}) -> Seq<u8> {{\n    " + "\n        + ".join(parts) + "\n}")
            # the same parts as a list (proof hints compare the k-th encoded part with the k-th
            # prescribed part: a swapped pair then fails a one-field comparison at once)
            out.append(f"#[verifier::opaque]\npub open spec fn parts_{name}(v: {name}) -> Seq<Seq<u8>> {{\n    seq![" + ",\n        ".join(parts) + "]\n}")
            hooks.append(name)
        elif name in enums:
            arms = []
            for pos_, (vn, fn_, ty) in enumerate(enums[name]):
                arms.append(f"        {name}::{vn}(x) => varint_enc({pos_}) + {enc_field('x', ty, aliases)} + tag_end(),")
            if not re.search(r"pub enum " + name + r"\b", rs):
                raise SchemaError(f"Rust enum {name} not found")
            rvars = re.findall(r"^\s*(\w+)\(\w+\)\s*=\s*(\d+)", re.search(r"pub enum " + name + r"\s*\{(.*?)\n\}", rs, re.S).group(1), re.M)
            # same SET of enumerators (else the two cannot be related at all); their ORDER and numbering
            # are what the obligations compare: schema position vs the `= N` the Rust enum encodes
            if sorted(v for v, _ in rvars) != sorted(v for v, _, _ in enums[name]):
                raise SchemaError(f"{name}: enumerators differ between schema and Rust: {rvars}")
            out.append(f"pub open spec fn enc_{name}(v: {name}) -> Seq<u8> {{\n    match v {{\n" + "\n".join(arms) + "\n    }\n}")
            # the value the unsafe `*<*const _>::from(self).cast::<u8>()` reads: the `= N` written
            # on the #[repr(u8)] enum (RFC 2195 layout -- assumed)
            darms = "\n".join(f"        {name}::{v}(_) => {n}," for v, n in rvars)
            out.append(f"pub open spec fn repr_u8_{name}(v: {name}) -> u8 {{\n    match v {{\n{darms}\n    }}\n}}")
            hooks.append(name)
    out.append("")
    return "\n".join(out) + "\n", hooks


if __name__ == "__main__":
    try:
        text, hooks = generate(sys.argv[1] if len(sys.argv) > 1 else "/repo")
        sys.stdout.write(text)
        sys.stderr.write("hooks: " + " ".join(hooks) + "\n")
    except SchemaError as ex:
        sys.stderr.write(f"UNDECIDED (schema): {ex}\n")
        sys.exit(2)
