// ---- Locations, written from the property statement (C09) -----------------------------------------
// Rows and columns start at 1 and count CHARACTERS: consuming a character moves one column to the
// right, consuming '\n' moves to column 1 of the next row; byte positions advance by the
// character's UTF-8 length.
pub open spec fn advance_loc(l: Location, c: char) -> Location {
    if c == '\n' { Location { row: (l.row + 1) as usize, col: 1 } } else { Location { row: l.row, col: (l.col + 1) as usize } }
}
/// the location reached from `l` after consuming the characters `cs`
pub open spec fn advance_all(l: Location, cs: Seq<char>) -> Location
    decreases cs.len(),
{
    if cs.len() == 0 { l } else { advance_loc(advance_all(l, cs.drop_last()), cs.last()) }
}
pub open spec fn start_loc() -> Location { Location { row: 1, col: 1 } }
/// rows and columns never exceed 1 + the number of characters consumed (so they cannot overflow)
pub proof fn lemma_advance_bounds(cs: Seq<char>)
    requires cs.len() < usize::MAX - 2,
    ensures advance_all(start_loc(), cs).row >= 1, advance_all(start_loc(), cs).col >= 1,
            advance_all(start_loc(), cs).row + advance_all(start_loc(), cs).col <= cs.len() + 2,
    decreases cs.len(),
{
    if cs.len() > 0 { lemma_advance_bounds(cs.drop_last()); }
}

/// from any start location: rows/columns grow by at most one per consumed character, never decrease
pub proof fn lemma_advance_bounds_from(l: Location, cs: Seq<char>)
    requires l.row + l.col + cs.len() < usize::MAX - 2, l.col >= 1,
    ensures advance_all(l, cs).row + advance_all(l, cs).col <= l.row + l.col + cs.len(),
            advance_all(l, cs).row >= l.row, advance_all(l, cs).col >= 1,
    decreases cs.len(),
{
    if cs.len() > 0 { lemma_advance_bounds_from(l, cs.drop_last()); }
}
