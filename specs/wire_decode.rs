// ---- decoding relations for sequences (spec only; no executable code) ---------------------------

/// The elements of `v` decode one after the other from the front of `b`; `offs[i]` is the byte
/// offset at which element `i` starts and `offs[v.len()]` the offset just past the last one.
pub open spec fn elems_dec_at<T: DecodeFrom>(b: Seq<u8>, v: Seq<T>, offs: Seq<nat>) -> bool {
    offs.len() == v.len() + 1 && offs[0] == 0
        && forall|i: int| 0 <= i < v.len() ==> offs[i] <= #[trigger] offs[i + 1]
            && T::is_dec(b.skip(offs[i] as int), v[i], (offs[i + 1] - offs[i]) as nat)
}

/// The elements of `v` decode consecutively from the front of `b`, using `n` bytes in total.
pub open spec fn elems_dec<T: DecodeFrom>(b: Seq<u8>, v: Seq<T>, n: nat) -> bool {
    exists|offs: Seq<nat>| #[trigger] elems_dec_at::<T>(b, v, offs) && offs[v.len() as int] == n
}

/// Key/value pairs decode one after the other (key then value) from the front of `b`.
pub open spec fn pairs_dec_at<K: DecodeFrom, V: DecodeFrom>(b: Seq<u8>, e: Seq<(K, V)>, offs: Seq<nat>, mids: Seq<nat>) -> bool {
    offs.len() == e.len() + 1 && mids.len() == e.len() && offs[0] == 0
        && forall|i: int| 0 <= i < e.len() ==> offs[i] <= #[trigger] mids[i] <= offs[i + 1]
            && K::is_dec(b.skip(offs[i] as int), e[i].0, (mids[i] - offs[i]) as nat)
            && V::is_dec(b.skip(mids[i] as int), e[i].1, (offs[i + 1] - mids[i]) as nat)
}

pub open spec fn pairs_dec<K: DecodeFrom, V: DecodeFrom>(b: Seq<u8>, e: Seq<(K, V)>, n: nat) -> bool {
    exists|offs: Seq<nat>, mids: Seq<nat>| #[trigger] pairs_dec_at::<K, V>(b, e, offs, mids) && offs[e.len() as int] == n
}

/// No two entries share a key.
pub open spec fn keys_distinct<K, V>(e: Seq<(K, V)>) -> bool {
    forall|i: int, j: int| 0 <= i < j < e.len() ==> e[i].0 != e[j].0
}

/// The map built by inserting the entries in order.
pub open spec fn entries_map<K, V>(e: Seq<(K, V)>) -> Map<K, V>
    decreases e.len(),
{
    if e.len() == 0 { Map::empty() } else { entries_map(e.drop_last()).insert(e.last().0, e.last().1) }
}

/// The domain of `entries_map(e)` is exactly the set of keys occurring in `e`.
pub proof fn lemma_entries_map_dom<K, V>(e: Seq<(K, V)>, k: K)
    ensures entries_map(e).contains_key(k) <==> exists|i: int| 0 <= i < e.len() && #[trigger] e[i].0 == k,
    decreases e.len(),
{
    if e.len() > 0 {
        let f = e.drop_last();
        lemma_entries_map_dom(f, k);
        if entries_map(e).contains_key(k) {
            if e.last().0 == k {
                assert(e[e.len() - 1].0 == k);
            } else {
                let i = choose|i: int| 0 <= i < f.len() && #[trigger] f[i].0 == k;
                assert(e[i].0 == k);
            }
        }
        if exists|i: int| 0 <= i < e.len() && #[trigger] e[i].0 == k {
            let i = choose|i: int| 0 <= i < e.len() && #[trigger] e[i].0 == k;
            if i < f.len() { assert(f[i].0 == k); }
        }
    }
}

/// Appending an entry whose key is not yet in the map keeps keys distinct and inserts it.
pub proof fn lemma_entries_push<K, V>(e: Seq<(K, V)>, k: K, v: V)
    requires keys_distinct(e), !entries_map(e).contains_key(k),
    ensures keys_distinct(e.push((k, v))), entries_map(e.push((k, v))) == entries_map(e).insert(k, v),
{
    let e2 = e.push((k, v));
    assert(e2.drop_last() =~= e);
    assert forall|i: int, j: int| 0 <= i < j < e2.len() implies e2[i].0 != e2[j].0 by {
        if j == e.len() {
            lemma_entries_map_dom(e, k);
            if e2[i].0 == k { assert(e[i].0 == k); }
        } else {
            assert(e[i].0 != e[j].0);
        }
    }
}

// ---- tagged fields (skip_tagged_fields): written from the wire format -----------------------------------------------------
// a run of fields `tag (a varint32, != the end marker) size payload`, closed by the end marker (-1). A tag outside the
// varint32 range is malformed ("never accepts an out-of-range variable-width integer").
/// `b` starts with ONE tagged field: its total length
pub open spec fn field_len(b: Seq<u8>) -> Option<nat> {
    match varint_dec(b) {
        None => None,
        Some(tw) => if tw.0 == -1 || tw.0 < -0x8000_0000 || tw.0 > 0x7fff_ffff { None } else {
            match varuint_dec(b.skip(tw.1 as int)) {
                None => None,
                Some(sw) => if sw.0 > usize::MAX || b.len() < tw.1 + sw.1 + sw.0 { None } else { Some(tw.1 + sw.1 + sw.0) },
            }
        },
    }
}
/// the first n bytes of `b` are exactly a sequence of complete tagged fields
pub open spec fn fields_run(b: Seq<u8>, n: nat) -> bool
    decreases n,
{
    n == 0 || (field_len(b) matches Some(l) && 0 < l <= n && fields_run(b.skip(l as int), (n - l) as nat))
}
/// what `skip_tagged_fields` may accept: fields, then the end marker; n bytes in all
pub open spec fn skipped(b: Seq<u8>, n: nat) -> bool {
    exists|m: nat| m <= n && #[trigger] fields_run(b, m) && varint_dec(b.skip(m as int)) == Some((-1int, (n - m) as nat))
}
pub proof fn lemma_fields_run_len(b: Seq<u8>, n: nat)
    requires fields_run(b, n),
    ensures n <= b.len(),
    decreases n,
{
    if n > 0 {
        let l0 = field_len(b)->Some_0;
        lemma_fields_run_len(b.skip(l0 as int), (n - l0) as nat);
    }
}
pub proof fn lemma_fields_run_append(b: Seq<u8>, n: nat, l: nat)
    requires fields_run(b, n), field_len(b.skip(n as int)) == Some(l), l > 0,
    ensures fields_run(b, n + l),
    decreases n,
{
    if n == 0 {
        assert(b.skip(0) =~= b);
        assert(fields_run(b.skip(l as int), 0));
    } else {
        let l0 = field_len(b)->Some_0;
        lemma_fields_run_len(b, n);
        assert(l0 <= n <= b.len());
        assert(b.skip(l0 as int).skip((n - l0) as int) =~= b.skip(n as int));
        lemma_fields_run_append(b.skip(l0 as int), (n - l0) as nat, l);
        assert((n + l - l0) as nat == (n - l0) as nat + l);
    }
}
