// ---- Conditional-compilation semantics, written from the property statement (C06) ---------------
// expr_val:  !, &&, ||, parentheses, symbol membership
// select:    the FIRST section whose condition holds; later #elif conditions are not consulted;
//            else the #else block; else nothing
// run_*:     nodes are processed left to right; #define / #undef change the symbol set only when
//            reached (inside selected regions, from that point on); conditionals recurse on select

// views of the symbol set: the strings' character sequences
pub open spec fn sv(h: Set<String>) -> Set<Seq<char>> { h.map(|s: String| s@) }

pub open spec fn expr_val(e: Expression, syms: Set<Seq<char>>) -> bool
    decreases e
{
    match e {
        Expression::Term(t) => term_val(t, syms),
        Expression::Not(t) => !term_val(t, syms),
        Expression::And(e2, t) => expr_val(*e2, syms) && term_val(t, syms),
        Expression::Or(e2, t) => expr_val(*e2, syms) || term_val(t, syms),
    }
}
pub open spec fn term_val(t: Term, syms: Set<Seq<char>>) -> bool
    decreases t
{
    match t {
        Term::Symbol(s) => syms.contains(s@),
        Term::Expression(e) => expr_val(*e, syms),
    }
}

pub open spec fn select_elif<'a>(elifs: Seq<(Expression<'a>, Vec<Node<'a>>)>, i: int, els: Option<Vec<Node<'a>>>, syms: Set<Seq<char>>) -> Seq<Node<'a>>
    decreases elifs.len() - i
{
    if i < 0 || i >= elifs.len() { match els { Some(v) => v@, None => Seq::empty() } }
    else if expr_val(elifs[i].0, syms) { elifs[i].1@ } else { select_elif(elifs, i + 1, els, syms) }
}
pub open spec fn select<'a>(c: Conditional<'a>, syms: Set<Seq<char>>) -> Seq<Node<'a>> {
    if expr_val(c.if_section.0, syms) { c.if_section.1@ } else { select_elif(c.elif_sections@, 0, c.else_section, syms) }
}

// ---- finiteness of directive nesting (assumed ghost measure, like ast_wf in DESIGN.md section 5) --
// A preprocessor AST is a finite tree built bottom-up by the parser. Verus cannot derive a
// structural measure through `Vec`'s view, so the height is an uninterpreted function with the two
// facts every finite tree satisfies.
pub use nesting_facts::{node_height, nodes_height};
pub mod nesting_facts {
    use vstd::prelude::*;
    use super::*;
    pub uninterp spec fn node_height(n: Node) -> nat;
    pub uninterp spec fn nodes_height(ns: Seq<Node>) -> nat;
    /// every element of a list is no higher than the list
    pub broadcast axiom fn axiom_nodes_height_index(ns: Seq<Node>, i: int)
        requires 0 <= i < ns.len(),
        ensures #[trigger] node_height(ns[i]) <= nodes_height(ns);
    /// every section of a conditional is strictly lower than the conditional
    pub broadcast axiom fn axiom_conditional_sections_lower(c: Conditional)
        ensures
            nodes_height(c.if_section.1@) < #[trigger] node_height(Node::Conditional(c)),
            forall|i: int| 0 <= i < c.elif_sections@.len() ==> nodes_height(#[trigger] c.elif_sections@[i].1@) < node_height(Node::Conditional(c)),
            c.else_section matches Some(v) ==> nodes_height(v@) < node_height(Node::Conditional(c)),
            nodes_height(Seq::<Node>::empty()) == 0;
}

pub proof fn lemma_select_elif_lower<'a>(c: Conditional<'a>, i: int, syms: Set<Seq<char>>)
    requires 0 <= i <= c.elif_sections@.len(),
    ensures nodes_height(select_elif(c.elif_sections@, i, c.else_section, syms)) < node_height(Node::Conditional(c)),
    decreases c.elif_sections@.len() - i,
{
    nesting_facts::axiom_conditional_sections_lower(c);
    if i < c.elif_sections@.len() && !expr_val(c.elif_sections@[i].0, syms) {
        lemma_select_elif_lower(c, i + 1, syms);
    }
}

pub proof fn lemma_select_lower<'a>(c: Conditional<'a>, syms: Set<Seq<char>>)
    ensures nodes_height(select(c, syms)) < node_height(Node::Conditional(c)),
{
    nesting_facts::axiom_conditional_sections_lower(c);
    lemma_select_elif_lower(c, 0, syms);
}

/// Processing nodes `i..` of `ns` left to right from symbol set `syms`:
/// (source blocks emitted in order, symbol set afterwards).
pub open spec fn run_nodes<'a>(ns: Seq<Node<'a>>, i: int, syms: Set<Seq<char>>) -> (Seq<SourceBlock<'a>>, Set<Seq<char>>)
    decreases nodes_height(ns), ns.len() - i
{
    if i < 0 || i >= ns.len() {
        (Seq::empty(), syms)
    } else {
        let step = match ns[i] {
            Node::SourceBlock(b) => (seq![b], syms),
            Node::DefineDirective(s) => (Seq::empty(), syms.insert(s@)),
            Node::UndefineDirective(s) => (Seq::empty(), syms.remove(s@)),
            Node::Conditional(c) => {
                if nodes_height(select(c, syms)) < nodes_height(ns) { run_nodes(select(c, syms), 0, syms) } else { (Seq::empty(), syms) }
            }
        };
        let rest = run_nodes(ns, i + 1, step.1);
        (step.0 + rest.0, rest.1)
    }
}

/// view of a set after inserting a string with characters `k`
pub proof fn lemma_sv_insert(h1: Set<String>, h2: Set<String>, k: Seq<char>)
    requires exists|x: String| x@ == k && h2 == h1.insert(x),
    ensures sv(h2) =~= sv(h1).insert(k),
{
    let x = choose|x: String| x@ == k && h2 == h1.insert(x);
    assert forall|y: Seq<char>| sv(h2).contains(y) <==> sv(h1).insert(k).contains(y) by {
        if sv(h2).contains(y) {
            let s = choose|s: String| h2.contains(s) && s@ == y;
            if s != x { assert(h1.contains(s)); assert(sv(h1).contains(y)); }
        }
        if sv(h1).insert(k).contains(y) {
            if y == k { assert(h2.contains(x)); assert(sv(h2).contains(y)); }
            else { let s = choose|s: String| h1.contains(s) && s@ == y; assert(h2.contains(s)); assert(sv(h2).contains(y)); }
        }
    }
}

/// view of a set after removing every string with characters `k`
pub proof fn lemma_sv_remove(h1: Set<String>, h2: Set<String>, k: Seq<char>)
    requires forall|x: String| #[trigger] h2.contains(x) == (h1.contains(x) && x@ != k),
    ensures sv(h2) =~= sv(h1).remove(k),
{
    assert forall|y: Seq<char>| sv(h2).contains(y) <==> sv(h1).remove(k).contains(y) by {
        if sv(h2).contains(y) {
            let s = choose|s: String| h2.contains(s) && s@ == y;
            assert(h1.contains(s)); assert(sv(h1).contains(y));
        }
        if sv(h1).remove(k).contains(y) {
            let s = choose|s: String| h1.contains(s) && s@ == y;
            assert(h2.contains(s)); assert(sv(h2).contains(y));
        }
    }
}
