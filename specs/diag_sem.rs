// ---- Diagnostics invariant and totals (C07) -------------------------------------------------------
/// The data-structure invariant that makes the guard (kinds) and the exit status (levels) agree:
/// a diagnostic has level Error exactly when it IS an error.
pub open spec fn diag_ok(d: Diagnostic) -> bool { (d.level == DiagnosticLevel::Error) <==> (d.kind is Error) }
pub open spec fn all_ok(s: Seq<Diagnostic>) -> bool { forall|i: int| 0 <= i < s.len() ==> diag_ok(#[trigger] s[i]) }

/// "at least one error diagnostic" (by kind)
pub open spec fn has_error_kind(s: Seq<Diagnostic>) -> bool { exists|i: int| 0 <= i < s.len() && (#[trigger] s[i]).kind is Error }

/// number of the first `n` diagnostics with level `l`
pub open spec fn cnt(s: Seq<Diagnostic>, l: DiagnosticLevel, n: int) -> nat
    decreases n,
{
    if n <= 0 { 0 } else { cnt(s, l, n - 1) + if s[n - 1].level == l { 1nat } else { 0nat } }
}
pub proof fn lemma_cnt_le(s: Seq<Diagnostic>, l: DiagnosticLevel, n: int)
    requires 0 <= n,
    ensures cnt(s, l, n) <= n,
    decreases n,
{
    if n > 0 { lemma_cnt_le(s, l, n - 1); }
}
/// With the invariant, "no error-level diagnostic counted" <=> "no error-kind diagnostic present":
/// this is why the generator guard (has_errors) and the exit status (error count) agree.
pub proof fn lemma_count_vs_kind(s: Seq<Diagnostic>, n: int)
    requires all_ok(s), 0 <= n <= s.len(),
    ensures cnt(s, DiagnosticLevel::Error, n) == 0 <==> !has_error_kind(s.take(n)),
    decreases n,
{
    if n > 0 {
        lemma_count_vs_kind(s, n - 1);
        assert(s.take(n - 1) =~= s.take(n).take(n - 1));
        if has_error_kind(s.take(n)) {
            let i = choose|i: int| 0 <= i < s.take(n).len() && (#[trigger] s.take(n)[i]).kind is Error;
            if i < n - 1 { assert(s.take(n - 1)[i].kind is Error); }
            else { assert(s[n - 1] == s.take(n)[i]); }
        }
        if has_error_kind(s.take(n - 1)) {
            let i = choose|i: int| 0 <= i < s.take(n - 1).len() && (#[trigger] s.take(n - 1)[i]).kind is Error;
            assert(s.take(n)[i].kind is Error);
        }
        if s[n - 1].kind is Error { assert(s.take(n)[n - 1].kind is Error); }
    }
}

