// ---- C09: what the underline of a diagnostic snippet must look like -----------------------------------
// A source line is displayed with every tab expanded to EXPANDED_TAB (slice_file.rs get_snippet:
// `line.replace('\t', EXPANDED_TAB)`), after a one-space separator. So the display column of the
// i-th character is 1 + disp_width(line[..i]), and "underlines exactly the spanned columns" means:
// the underline starts there for i = start and is as wide as the displayed characters start..end.
pub open spec fn tabw() -> nat { EXPANDED_TAB@.len() }
pub open spec fn col_w(c: char) -> nat { if c == '\t' { tabw() } else { 1 } }
pub open spec fn disp_width(s: Seq<char>) -> nat
    decreases s.len(),
{
    if s.len() == 0 { 0 } else { disp_width(s.drop_last()) + col_w(s.last()) }
}
pub open spec fn count_tabs(s: Seq<char>) -> nat
    decreases s.len(),
{
    if s.len() == 0 { 0 } else { count_tabs(s.drop_last()) + if s.last() == '\t' { 1nat } else { 0nat } }
}
pub open spec fn run_of(c: char, n: nat) -> Seq<char> { Seq::new(n, |i: int| c) }
pub open spec fn point_marker() -> Seq<char> { seq!['/', '\\'] }
/// THE PROPERTY, for one displayed line and a highlighted character range [start, end)
pub open spec fn expected_highlight(line: Seq<char>, start: int, end: int) -> Seq<char> {
    if start == end {
        // a point between two characters: `/\` straddling the boundary (its '/' one column before)
        run_of(' ', disp_width(line.take(start))) + point_marker()
    } else {
        run_of(' ', 1 + disp_width(line.take(start))) + run_of('-', disp_width(line.subrange(start, end)))
    }
}
pub proof fn lemma_width_vs_tabs(s: Seq<char>)
    requires tabw() >= 1,
    ensures disp_width(s) == s.len() + count_tabs(s) * (tabw() - 1), count_tabs(s) <= s.len(),
    decreases s.len(),
{
    if s.len() > 0 {
        let p = s.drop_last();
        lemma_width_vs_tabs(p);
        let c0 = count_tabs(p) as int;
        let t = tabw() - 1;
        assert(disp_width(p) == p.len() + c0 * t);
        if s.last() == '\t' {
            assert(count_tabs(s) as int == c0 + 1);
            assert((c0 + 1) * t == c0 * t + t) by (nonlinear_arith);
            assert(disp_width(s) == disp_width(p) + tabw());
        } else {
            assert(count_tabs(s) as int == c0);
            assert(disp_width(s) == disp_width(p) + 1);
        }
        assert(disp_width(s) == s.len() + (count_tabs(s) as int) * t);
    } else {
        assert(count_tabs(s) == 0 && disp_width(s) == 0);
        assert((count_tabs(s) as int) * (tabw() - 1) == 0) by (nonlinear_arith) requires count_tabs(s) == 0;
    }
}
pub proof fn lemma_width_le(s: Seq<char>)
    requires 1 <= tabw() <= 64,
    ensures disp_width(s) <= s.len() * 64,
    decreases s.len(),
{
    if s.len() > 0 { lemma_width_le(s.drop_last()); }
}
/// widths add up over a split
pub proof fn lemma_width_split(s: Seq<char>, k: int)
    requires 0 <= k <= s.len(),
    ensures disp_width(s) == disp_width(s.take(k)) + disp_width(s.skip(k)),
    decreases s.len(),
{
    if k < s.len() {
        lemma_width_split(s.drop_last(), k);
        assert(s.drop_last().take(k) =~= s.take(k));
        assert(s.drop_last().skip(k) =~= s.skip(k).drop_last());
        assert(s.skip(k).last() == s.last());
    } else {
        assert(s.take(k) =~= s);
        assert(s.skip(k) =~= Seq::<char>::empty());
    }
}
