/// Concatenated encodings of the first `n` elements of `s` (elements are encoded by reference,
/// as `impl EncodeInto for &[T]` does).
pub open spec fn enc_all<'a, T: 'a>(s: Seq<T>, n: int) -> Seq<u8>
    where &'a T: EncodeInto
    decreases n,
{
    if n <= 0 { Seq::empty() } else { enc_all::<T>(s, n - 1) + (&s[n - 1]).enc() }
}

// IEEE-754 bit patterns: opaque to Verus (no float reasoning); the byte-level facts are Kani's
// (k_fixed_f32 / k_fixed_f64 compare every bit pattern).
pub uninterp spec fn f32_bits(x: f32) -> nat;
pub uninterp spec fn f64_bits(x: f64) -> nat;
pub uninterp spec fn f32_from_bits(n: nat) -> f32;
pub uninterp spec fn f64_from_bits(n: nat) -> f64;
