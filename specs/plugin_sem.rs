// ---- Generator specification syntax, written from the property statement (C19) --------------------
// PATH,KEY=VALUE,...  split at unescaped ','; the first component is the path, in which '=' is
// literal; later components split at the first unescaped '=', a second one is an error; `\,` and
// `\=` stand for the literal character, any other backslash is literal; one trailing ',' is
// ignored; components are trimmed; an empty path or an empty key is an error.
pub enum PMode { Path, Key, Value }
pub struct PState {
    pub path: Seq<char>,
    pub args: Seq<(Seq<char>, Seq<char>)>,
    pub mode: PMode,
}
pub open spec fn p_init() -> PState { PState { path: Seq::empty(), args: Seq::empty(), mode: PMode::Path } }

/// append a (literal) character to the component being read
pub open spec fn p_push(st: PState, c: char) -> PState {
    match st.mode {
        PMode::Path => PState { path: st.path.push(c), ..st },
        PMode::Key => PState { args: st.args.update(st.args.len() - 1, (st.args.last().0.push(c), st.args.last().1)), ..st },
        PMode::Value => PState { args: st.args.update(st.args.len() - 1, (st.args.last().0, st.args.last().1.push(c))), ..st },
    }
}

/// one step on the non-empty remaining characters `rest`: (new state, or None for "second unescaped
/// '=' in one argument"; number of characters consumed: 2 for an escape pair, else 1)
pub open spec fn p_step(rest: Seq<char>, st: PState) -> (Option<PState>, nat) {
    let c = rest[0];
    if c == '\\' && rest.len() >= 2 && (rest[1] == ',' || rest[1] == '=') {
        (Some(p_push(st, rest[1])), 2)                       // `\,` and `\=` are the literal character
    } else if c == ',' {
        if rest.len() >= 2 {
            (Some(PState { args: st.args.push((Seq::empty(), Seq::empty())), mode: PMode::Key, ..st }), 1)
        } else {
            (Some(st), 1)                                    // one trailing comma is ignored
        }
    } else if c == '=' {
        match st.mode {
            PMode::Path => (Some(p_push(st, '=')), 1),       // '=' is literal in the path
            PMode::Key => (Some(PState { mode: PMode::Value, ..st }), 1),
            PMode::Value => (None, 1),                       // a second unescaped '='
        }
    } else {
        (Some(p_push(st, c)), 1)                             // any other character (incl. a lone backslash)
    }
}

/// scanning the remaining characters from state `st`
pub open spec fn p_scan(rest: Seq<char>, st: PState) -> Option<PState>
    decreases rest.len(),
{
    if rest.len() == 0 {
        Some(st)
    } else {
        let step = p_step(rest, st);
        match step.0 {
            None => None,
            Some(n) => p_scan(rest.skip(step.1 as int), n),
        }
    }
}

/// every key and value trimmed
pub open spec fn trimmed_args(a: Seq<(Seq<char>, Seq<char>)>) -> Seq<(Seq<char>, Seq<char>)> {
    Seq::new(a.len(), |i: int| (spec_trim(a[i].0), spec_trim(a[i].1)))
}

/// The parse result: Some((path, args)) trimmed, or None for every rejected specification.
pub open spec fn spec_parse(s: Seq<char>) -> Option<(Seq<char>, Seq<(Seq<char>, Seq<char>)>)> {
    match p_scan(s, p_init()) {
        None => None,
        Some(st) => {
            let path = spec_trim(st.path);
            let args = trimmed_args(st.args);
            if path.len() == 0 { None }
            else if exists|i: int| 0 <= i < args.len() && (#[trigger] args[i]).0.len() == 0 { None }
            else { Some((path, args)) }
        }
    }
}

/// views of the concrete buffers
pub open spec fn args_view(v: Seq<(String, String)>) -> Seq<(Seq<char>, Seq<char>)> {
    Seq::new(v.len(), |i: int| (v[i].0@, v[i].1@))
}
