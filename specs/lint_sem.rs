// ---- lint suppression (C13): what Diagnostics::into_updated must compute -----------------------------
/// `Lint::code()` -- the lint's name as it is written after `--allow` / inside `allow(...)`.
pub uninterp spec fn lint_code(l: Lint) -> Seq<char>;
/// A list of identifiers names the lint: one of them is `All` or the lint's code (ASCII case ignored).
pub open spec fn names_allow(ids: Seq<String>, l: Lint) -> bool {
    exists|i: int| 0 <= i < ids.len() && #[trigger] id_names(ids[i], l)
}
pub open spec fn names_allow_refs(ids: Seq<&String>, l: Lint) -> bool {
    exists|i: int| 0 <= i < ids.len() && #[trigger] id_names(*ids[i], l)
}
pub proof fn lemma_names_refs(ids: Seq<String>, refs: Seq<&String>, l: Lint)
    requires refs.len() == ids.len(), forall|i: int| 0 <= i < ids.len() ==> *#[trigger] refs[i] == ids[i],
    ensures names_allow_refs(refs, l) == names_allow(ids, l),
{
    if names_allow_refs(refs, l) { let i = choose|i: int| 0 <= i < refs.len() && #[trigger] id_names(*refs[i], l); assert(id_names(ids[i], l)); }
    if names_allow(ids, l) { let i = choose|i: int| 0 <= i < ids.len() && #[trigger] id_names(ids[i], l); assert(id_names(*refs[i], l)); }
}
pub open spec fn id_names(id: String, l: Lint) -> bool { ci_eq(id@, "All"@) || ci_eq(id@, lint_code(l)) }
/// equality ignoring ASCII letter case (`str::eq_ignore_ascii_case`): the command line accepts lint
/// names in any letter case, so that is how they have to be compared
pub open spec fn ascii_lower(c: char) -> char { if 'A' <= c && c <= 'Z' { ((c as u8) + 32) as char } else { c } }
pub open spec fn ci_eq(a: Seq<char>, b: Seq<char>) -> bool { a.len() == b.len() && forall|i: int| 0 <= i < a.len() ==> ascii_lower(#[trigger] a[i]) == ascii_lower(b[i]) }
/// The `allow` attributes reachable from an attributable thing (`Attributable::all_attributes`: its
/// own and, for an entity, those of every enclosing definition) name the lint. Uninterpreted: the
/// attribute walk is dyn dispatch + downcasts (assumed in shims/diag.rs).
pub uninterp spec fn attrs_allow<T: ?Sized>(a: &T, l: Lint) -> bool;
/// The file of `files` a span lies in (by relative path).
pub uninterp spec fn file_of(files: Seq<SliceFile>, span: Span) -> SliceFile;
/// `Ast::find_element::<dyn Entity>(scope)`.
pub uninterp spec fn entity_at(ast: &Ast, scope: Seq<char>) -> Option<&dyn Entity>;

/// THE PROPERTY (C13), per diagnostic: a diagnostic is silenced exactly when it is a LINT and the
/// lint is named by the command line, by its file's attributes, or by the attributes in its scope.
pub open spec fn silenced(d: Diagnostic, ast: &Ast, files: Seq<SliceFile>, options: &SliceOptions) -> bool {
    match d.kind {
        DiagnosticKind::Error(_) => false,
        DiagnosticKind::Lint(l) =>
            names_allow(options.allowed_lints@, l)
            || (d.span is Some && attrs_allow::<SliceFile>(&file_of(files, d.span->0), l))
            || (d.scope is Some && entity_at(ast, (d.scope->0)@) is Some
                && attrs_allow::<dyn Entity>(entity_at(ast, (d.scope->0)@)->0, l)),
    }
}
/// ... and silencing changes the level to Allowed and NOTHING else (kind, span, scope, notes).
pub open spec fn updated(d: Diagnostic, ast: &Ast, files: Seq<SliceFile>, options: &SliceOptions) -> Diagnostic {
    if silenced(d, ast, files, options) {
        Diagnostic { kind: d.kind, level: DiagnosticLevel::Allowed, span: d.span, scope: d.scope, notes: d.notes }
    } else { d }
}
