// ---- The Slice wire format as mathematical spec functions (oracle for C10 / C11 / C08) -----------
// Written from the property statement and the public Slice encoding rules, not from the code:
//   * fixed-width numbers are little-endian: byte i of x is (x / 256^i) % 256
//   * a variable-width unsigned integer v < 2^62 occupies the SHORTEST of 1, 2, 4, 8 bytes that
//     holds v*4 + code little-endian, code in {0,1,2,3} for width {1,2,4,8} in the two low bits
//   * signed likewise over two's complement, -2^61 <= v < 2^61
//   * size = varuint62;  string = size(|utf8|) ++ utf8;  sequence = size(n) ++ elements in order

pub open spec fn pow256(n: nat) -> nat
    decreases n,
{
    if n == 0 { 1 } else { 256 * pow256((n - 1) as nat) }
}

/// Byte `i` of the little-endian representation of `x`.
pub open spec fn spec_le_byte(x: nat, i: nat) -> u8 {
    ((x / pow256(i)) % 256) as u8
}

/// The `n`-byte little-endian representation of `x` (of `x mod 256^n`).
pub open spec fn le_bytes(x: nat, n: nat) -> Seq<u8> {
    Seq::new(n, |i: int| spec_le_byte(x, i as nat))
}

/// The number whose little-endian representation is `b`.
pub open spec fn le_value(b: Seq<u8>) -> nat
    decreases b.len(),
{
    if b.len() == 0 { 0 } else { b[0] as nat + 256 * le_value(b.skip(1)) }
}

pub open spec fn spec_varuint_width(v: nat) -> nat {
    if v < 0x40 { 1 } else if v < 0x4000 { 2 } else if v < 0x4000_0000 { 4 } else if v < 0x4000_0000_0000_0000 { 8 } else { 0 }
}

pub open spec fn spec_varint_width(v: int) -> nat {
    if -0x20 <= v < 0x20 { 1 }
    else if -0x2000 <= v < 0x2000 { 2 }
    else if -0x2000_0000 <= v < 0x2000_0000 { 4 }
    else if -0x2000_0000_0000_0000 <= v < 0x2000_0000_0000_0000 { 8 }
    else { 0 }
}

pub open spec fn spec_width_code(w: nat) -> nat {
    if w == 1 { 0 } else if w == 2 { 1 } else if w == 4 { 2 } else { 3 }
}

pub open spec fn spec_code_width(first: nat) -> nat {
    let c = first % 4;
    if c == 0 { 1 } else if c == 1 { 2 } else if c == 2 { 4 } else { 8 }
}

pub open spec fn varuint_encodable(v: nat) -> bool { v < 0x4000_0000_0000_0000 }
pub open spec fn varint_encodable(v: int) -> bool { -0x2000_0000_0000_0000 <= v < 0x2000_0000_0000_0000 }

/// varuint62 encoding of `v` (meaningful when `varuint_encodable(v)`).
pub open spec fn varuint_enc(v: nat) -> Seq<u8> {
    let w = spec_varuint_width(v);
    le_bytes(v * 4 + spec_width_code(w), w)
}

/// varint62 encoding of `v`: two's complement of v*4+code on `w` bytes.
pub open spec fn varint_enc(v: int) -> Seq<u8> {
    let w = spec_varint_width(v);
    le_bytes(((v * 4 + spec_width_code(w)) % (pow256(w) as int)) as nat, w)
}

pub open spec fn size_enc(n: nat) -> Seq<u8> { varuint_enc(n) }

/// Decoding a varuint62 from the front of `b`: (value, bytes consumed), None if truncated.
pub open spec fn varuint_dec(b: Seq<u8>) -> Option<(nat, nat)> {
    if b.len() == 0 { None } else {
        let w = spec_code_width(b[0] as nat);
        if b.len() < w { None } else { Some((le_value(b.take(w as int)) / 4, w)) }
    }
}

/// Decoding a varint62 from the front of `b` (sign-extended from the announced width).
pub open spec fn varint_dec(b: Seq<u8>) -> Option<(int, nat)> {
    if b.len() == 0 { None } else {
        let w = spec_code_width(b[0] as nat);
        if b.len() < w { None } else {
            let raw = le_value(b.take(w as int)) as int;
            let signed = if raw >= pow256(w) as int / 2 { raw - pow256(w) as int } else { raw };
            // floor division by 4 == arithmetic shift right by 2
            Some(((signed - (signed % 4)) / 4, w))
        }
    }
}

/// Concatenation of the encodings of the first `n` elements (helper for sequences).
pub open spec fn concat_prefix(parts: Seq<Seq<u8>>, n: int) -> Seq<u8>
    decreases n,
{
    if n <= 0 { Seq::empty() } else { concat_prefix(parts, n - 1) + parts[n - 1] }
}

pub open spec fn is_prefix(a: Seq<u8>, b: Seq<u8>) -> bool {
    a.len() <= b.len() && b.subrange(0, a.len() as int) =~= a
}

