// ---- C14, written from the property statement ---------------------------------------------------------
// "Every diagnostic that is not suppressed is written exactly once, in the order it was recorded, with its
//  code, message, location and notes ... suppressed lints leave no trace in either format."
pub open spec fn snippet_events(s: Option<Span>) -> Seq<Ev> {
    match s {
        None => Seq::empty(),
        Some(s) => seq![Ev::Arrow { file: s.file@, row: s.start.row, col: s.start.col }, Ev::Snippet { file: s.file@, start: s.start, end: s.end }],
    }
}
/// the first n notes, in order, each followed by its own location
pub open spec fn note_events(ns: Seq<Note>, n: int) -> Seq<Ev>
    decreases n,
{
    if n <= 0 { Seq::empty() } else { note_events(ns, n - 1) + seq![Ev::NoteLine { message: ns[n - 1].message@ }] + snippet_events(ns[n - 1].span) }
}
pub open spec fn human_one(d: Diagnostic) -> Seq<Ev> {
    if d.level == DiagnosticLevel::Allowed { Seq::empty() } else {
        seq![Ev::Header { level: d.level, code: spec_code(d), message: spec_message(d) }] + snippet_events(d.span) + note_events(d.notes@, d.notes@.len() as int)
    }
}
pub open spec fn human_events(ds: Seq<Diagnostic>, n: int) -> Seq<Ev>
    decreases n,
{
    if n <= 0 { Seq::empty() } else { human_events(ds, n - 1) + human_one(ds[n - 1]) }
}
/// "in JSON format each one is a single self-contained JSON object on its own line carrying message, severity,
///  span, notes and error_code and nothing else is written to the diagnostic stream"
pub open spec fn severity_of(l: DiagnosticLevel) -> Seq<char> {
    if l == DiagnosticLevel::Error { "error"@ } else { "warning"@ }
}
pub open spec fn json_one(d: Diagnostic) -> Seq<Ev> {
    if d.level == DiagnosticLevel::Allowed { Seq::empty() } else {
        seq![Ev::Json { message: spec_message(d), severity: severity_of(d.level), span: d.span, notes: d.notes@, code: spec_code(d) }, Ev::Newline]
    }
}
pub open spec fn json_events(ds: Seq<Diagnostic>, n: int) -> Seq<Ev>
    decreases n,
{
    if n <= 0 { Seq::empty() } else { json_events(ds, n - 1) + json_one(ds[n - 1]) }
}
/// "in human format the summary counts equal the numbers of warnings and errors shown"
pub open spec fn headers_of(evs: Seq<Ev>, l: DiagnosticLevel) -> int
    decreases evs.len(),
{
    if evs.len() == 0 { 0 } else {
        headers_of(evs.drop_last(), l) + (if evs.last() matches Ev::Header { level, .. } && level == l { 1int } else { 0int })
    }
}
/// what `get_totals` counts (its own contract, C07.get_totals.*, is `r == (cnt(Warning), cnt(Error))` with this definition)
pub open spec fn cnt_level(ds: Seq<Diagnostic>, l: DiagnosticLevel, n: int) -> int
    decreases n,
{
    if n <= 0 { 0 } else { cnt_level(ds, l, n - 1) + (if ds[n - 1].level == l { 1int } else { 0int }) }
}
pub proof fn lemma_headers_concat(a: Seq<Ev>, b: Seq<Ev>, l: DiagnosticLevel)
    ensures headers_of(a + b, l) == headers_of(a, l) + headers_of(b, l),
    decreases b.len(),
{
    if b.len() == 0 {
        assert(a + b =~= a);
    } else {
        assert((a + b).drop_last() =~= a + b.drop_last());
        assert((a + b).last() == b.last());
        lemma_headers_concat(a, b.drop_last(), l);
    }
}
pub proof fn lemma_headers_one(e: Ev, l: DiagnosticLevel)
    ensures headers_of(seq![e], l) == (if e matches Ev::Header { level, .. } && level == l { 1int } else { 0int }),
{
    assert(seq![e].drop_last() =~= Seq::<Ev>::empty());
    assert(seq![e].last() == e);
    assert(headers_of(Seq::<Ev>::empty(), l) == 0);
}
pub proof fn lemma_headers_snippet(s: Option<Span>, l: DiagnosticLevel)
    ensures headers_of(snippet_events(s), l) == 0,
{
    match s {
        None => {}
        Some(sp) => {
            let a = Ev::Arrow { file: sp.file@, row: sp.start.row, col: sp.start.col };
            let b = Ev::Snippet { file: sp.file@, start: sp.start, end: sp.end };
            assert(snippet_events(s) =~= seq![a] + seq![b]);
            lemma_headers_concat(seq![a], seq![b], l);
            lemma_headers_one(a, l);
            lemma_headers_one(b, l);
        }
    }
}
pub proof fn lemma_headers_notes(ns: Seq<Note>, n: int, l: DiagnosticLevel)
    requires 0 <= n <= ns.len(),
    ensures headers_of(note_events(ns, n), l) == 0,
    decreases n,
{
    if n > 0 {
        lemma_headers_notes(ns, n - 1, l);
        let e = Ev::NoteLine { message: ns[n - 1].message@ };
        lemma_headers_one(e, l);
        lemma_headers_snippet(ns[n - 1].span, l);
        lemma_headers_concat(note_events(ns, n - 1), seq![e], l);
        lemma_headers_concat(note_events(ns, n - 1) + seq![e], snippet_events(ns[n - 1].span), l);
    }
}
/// C14: "in human format the summary counts equal the numbers of warnings and errors shown" -- the number of
/// `error [..]` (`warning [..]`) headers among the events of a list is what get_totals counts for that list
pub proof fn lemma_headers_match_totals(ds: Seq<Diagnostic>, n: int, l: DiagnosticLevel)
    requires 0 <= n <= ds.len(), l != DiagnosticLevel::Allowed,
    ensures headers_of(human_events(ds, n), l) == cnt_level(ds, l, n),
    decreases n,
{
    if n > 0 {
        lemma_headers_match_totals(ds, n - 1, l);
        let d = ds[n - 1];
        lemma_headers_concat(human_events(ds, n - 1), human_one(d), l);
        if d.level != DiagnosticLevel::Allowed {
            let h = Ev::Header { level: d.level, code: spec_code(d), message: spec_message(d) };
            lemma_headers_one(h, l);
            lemma_headers_snippet(d.span, l);
            lemma_headers_notes(d.notes@, d.notes@.len() as int, l);
            lemma_headers_concat(seq![h], snippet_events(d.span), l);
            lemma_headers_concat(seq![h] + snippet_events(d.span), note_events(d.notes@, d.notes@.len() as int), l);
        } else {
            assert(headers_of(Seq::<Ev>::empty(), l) == 0);
        }
    }
}
