// ---- The compiled file set, written from the property statement (C17) ----------------------------
// "the same file" = equal canonical paths. A list is reduced to the first occurrence of every file,
// order preserved; every later repeat is dropped and reported by its own spelling.
pub open spec fn fp_eq(a: FilePath, b: FilePath) -> bool { path_eq(a.canonicalized_path, b.canonicalized_path) }
pub open spec fn contains_file(s: Seq<FilePath>, x: FilePath) -> bool { exists|i: int| 0 <= i < s.len() && fp_eq(#[trigger] s[i], x) }

/// first occurrences among the first `n` entries, in order
pub open spec fn dedup(s: Seq<FilePath>, n: int) -> Seq<FilePath>
    decreases n,
{
    if n <= 0 { Seq::empty() } else {
        let d = dedup(s, n - 1);
        if contains_file(d, s[n - 1]) { d } else { d.push(s[n - 1]) }
    }
}
/// the spellings of the dropped repeats among the first `n` entries, in order
pub open spec fn dropped(s: Seq<FilePath>, n: int) -> Seq<String>
    decreases n,
{
    if n <= 0 { Seq::empty() } else {
        if contains_file(dedup(s, n - 1), s[n - 1]) { dropped(s, n - 1).push(s[n - 1].path) } else { dropped(s, n - 1) }
    }
}
/// `d` is `base` followed by one DuplicateFile lint per spelling in `paths`, in order
pub open spec fn lints_appended(base: Seq<Diagnostic>, d: Seq<Diagnostic>, paths: Seq<String>) -> bool {
    d.len() == base.len() + paths.len() && d.subrange(0, base.len() as int) =~= base
        && forall|j: int| 0 <= j < paths.len() ==> (#[trigger] d[base.len() + j]).kind == DiagnosticKind::Lint(Lint::DuplicateFile { path: paths[j] })
}

/// reference files that are not already present (as a source or an earlier reference) are appended
pub open spec fn merge_refs(acc: Seq<FilePath>, refs: Seq<FilePath>, n: int) -> Seq<FilePath>
    decreases n,
{
    if n <= 0 { acc } else {
        let m = merge_refs(acc, refs, n - 1);
        if contains_file(m, refs[n - 1]) { m } else { m.push(refs[n - 1]) }
    }
}

/// the dedup of a list never contains the same file twice ...
pub proof fn lemma_dedup_distinct(s: Seq<FilePath>, n: int)
    requires 0 <= n <= s.len(),
    ensures forall|i: int, j: int| 0 <= i < j < dedup(s, n).len() ==> !fp_eq(#[trigger] dedup(s, n)[i], #[trigger] dedup(s, n)[j]),
    decreases n,
{
    if n > 0 {
        lemma_dedup_distinct(s, n - 1);
        let d = dedup(s, n - 1);
        if !contains_file(d, s[n - 1]) {
            assert forall|i: int, j: int| 0 <= i < j < d.push(s[n - 1]).len() implies !fp_eq(#[trigger] d.push(s[n - 1])[i], #[trigger] d.push(s[n - 1])[j]) by {
                if j == d.len() { if fp_eq(d[i], s[n - 1]) { assert(contains_file(d, s[n - 1])); } }
            }
        }
    }
}
/// ... and every listed file is represented in it (nothing is lost, each file is compiled once)
pub proof fn lemma_dedup_covers(s: Seq<FilePath>, n: int, k: int)
    requires 0 <= k < n <= s.len(),
    ensures contains_file(dedup(s, n), s[k]),
    decreases n,
{
    let d = dedup(s, n - 1);
    if k < n - 1 {
        lemma_dedup_covers(s, n - 1, k);
        let i = choose|i: int| 0 <= i < d.len() && fp_eq(#[trigger] d[i], s[k]);
        if !contains_file(d, s[n - 1]) { assert(d.push(s[n - 1])[i] == d[i]); }
    } else {
        if contains_file(d, s[n - 1]) { } else { assert(fp_eq(d.push(s[n - 1])[d.len() as int], s[n - 1])); }
    }
}

/// The compiled file set of an invocation: the listed sources (first occurrences, in the order
/// given) followed by the reference files that are not already present.
pub open spec fn compiled_set(options: SliceOptions) -> Seq<FilePath> {
    let src = spec_found(options.sources@, true);
    let refs = spec_found(options.references@, false);
    let dr = dedup(refs, refs.len() as int);
    merge_refs(dedup(src, src.len() as int), dr, dr.len() as int)
}
/// `files` are made, in order, from entries idx[0] < idx[1] < ... of `paths`, keeping spelling and flag
pub open spec fn made_from(files: Seq<SliceFile>, paths: Seq<FilePath>, idx: Seq<int>) -> bool {
    idx.len() == files.len()
        && (forall|j: int| 0 <= j < idx.len() ==> 0 <= #[trigger] idx[j] < paths.len()
                && sf_path(files[j]) == paths[idx[j]].path && sf_is_source(files[j]) == paths[idx[j]].is_source)
        && (forall|a: int, b: int| 0 <= a < b < idx.len() ==> #[trigger] idx[a] < #[trigger] idx[b])
}
