// ---- Scoped name lookup, written from the property statement (C03) --------------------------------
// A name starting with "::" is looked up globally only. Otherwise the referencing scope
// `a::b::c` is searched from the innermost module outwards: a::b::c::id, a::b::id, a::id, and
// finally the global scope: id. The first candidate present in the table designates the entity.

pub open spec fn sep() -> Seq<char> { seq![':', ':'] }

/// the first `n` segments joined with "::"
pub open spec fn join_scope(segs: Seq<Seq<char>>, n: int) -> Seq<char>
    decreases n,
{
    if n <= 0 { Seq::empty() } else if n == 1 { segs[0] } else { join_scope(segs, n - 1) + sep() + segs[n - 1] }
}

/// the candidate fully scoped name for the enclosing scope made of the first `n` segments
pub open spec fn candidate_name(segs: Seq<Seq<char>>, n: int, id: Seq<char>) -> Seq<char> {
    join_scope(segs, n) + sep() + id
}

/// the lookup table, read through the keys' character sequences
pub open spec fn t_has(m: Map<String, usize>, k: Seq<char>) -> bool { exists|s: String| m.contains_key(s) && s@ == k }
pub open spec fn t_get(m: Map<String, usize>, k: Seq<char>) -> usize { m[choose|s: String| m.contains_key(s) && s@ == k] }
pub open spec fn t_lookup(m: Map<String, usize>, k: Seq<char>) -> Option<usize> { if t_has(m, k) { Some(t_get(m, k)) } else { None } }

/// outward search starting with the first `n` segments
pub open spec fn resolve_from(table: Map<String, usize>, segs: Seq<Seq<char>>, n: int, id: Seq<char>) -> Option<usize>
    decreases n,
{
    if n <= 0 {
        t_lookup(table, id)                                              // global scope last
    } else if t_has(table, candidate_name(segs, n, id)) {
        Some(t_get(table, candidate_name(segs, n, id)))                       // innermost first
    } else {
        resolve_from(table, segs, n - 1, id)
    }
}

pub open spec fn is_global(id: Seq<char>) -> bool { id.len() >= 2 && id[0] == ':' && id[1] == ':' }

/// the index of the entity that `id`, written inside the scope `segs`, designates (None = nothing)
pub open spec fn resolve(table: Map<String, usize>, segs: Seq<Seq<char>>, id: Seq<char>) -> Option<usize> {
    if is_global(id) { t_lookup(table, id.skip(2)) } else { resolve_from(table, segs, segs.len() as int, id) }
}

/// joining the first n segments only looks at the first n segments
pub proof fn lemma_join_take(segs: Seq<Seq<char>>, k: int, n: int)
    requires 0 <= n <= k <= segs.len(),
    ensures join_scope(segs.take(k), n) == join_scope(segs, n),
    decreases n,
{
    if n > 1 { lemma_join_take(segs, k, n - 1); }
}
