//! Replays concrete inputs against the real slice-codec crate.
//!   slicec-replay decode <type> <hex>    decode <hex> as <type>; reports Ok/Err/panic, bytes consumed,
//!                                        whether the error renders (Display), and the largest single
//!                                        allocation request made while decoding.
//! Types: bool u8 i8 u16 i16 u32 i32 u64 i64 f32 f64 varint32 varint62 varuint32 varuint62 size string
//!        vec_u8 vec_string vec_u64 hashmap_u8_u8 btreemap_u8_u8 hashmap_string_string skip_tagged
use slice_codec::buffer::slice::SliceInputSource;
use slice_codec::buffer::InputSource;
use slice_codec::decoder::Decoder;
use std::alloc::{GlobalAlloc, Layout, System};
use std::collections::{BTreeMap, HashMap};
use std::sync::atomic::{AtomicUsize, Ordering};

struct Counting;
static MAX_REQ: AtomicUsize = AtomicUsize::new(0);
static TOTAL_REQ: AtomicUsize = AtomicUsize::new(0);
unsafe impl GlobalAlloc for Counting {
    unsafe fn alloc(&self, l: Layout) -> *mut u8 {
        MAX_REQ.fetch_max(l.size(), Ordering::SeqCst);
        TOTAL_REQ.fetch_add(l.size(), Ordering::SeqCst);
        System.alloc(l)
    }
    unsafe fn dealloc(&self, p: *mut u8, l: Layout) {
        System.dealloc(p, l)
    }
    unsafe fn realloc(&self, p: *mut u8, l: Layout, n: usize) -> *mut u8 {
        MAX_REQ.fetch_max(n, Ordering::SeqCst);
        TOTAL_REQ.fetch_add(n, Ordering::SeqCst);
        System.realloc(p, l, n)
    }
}
#[global_allocator]
static A: Counting = Counting;

fn hex(s: &str) -> Vec<u8> {
    let s: String = s.chars().filter(|c| !c.is_whitespace()).collect();
    (0..s.len() / 2).map(|i| u8::from_str_radix(&s[2 * i..2 * i + 2], 16).expect("hex")).collect()
}

fn report<T: std::fmt::Debug>(name: &str, bytes: &[u8], f: impl FnOnce(&mut Decoder<SliceInputSource<'_>>) -> slice_codec::Result<T> + std::panic::UnwindSafe) {
    let data = bytes.to_vec();
    MAX_REQ.store(0, Ordering::SeqCst);
    TOTAL_REQ.store(0, Ordering::SeqCst);
    let out = std::panic::catch_unwind(move || {
        let mut dec = Decoder::new(SliceInputSource::from(&data[..]));
        let r = f(&mut dec);
        let consumed = data.len() - dec.remaining();
        match r {
            Ok(v) => format!("outcome=ok consumed={} value={:?}", consumed, v),
            Err(e) => {
                let shown = std::panic::catch_unwind(std::panic::AssertUnwindSafe(|| e.to_string()));
                match shown {
                    Ok(s) => format!("outcome=err consumed={} renders=yes message={:?}", consumed, s),
                    Err(_) => format!("outcome=err consumed={} renders=PANIC", consumed),
                }
            }
        }
    });
    let max_req = MAX_REQ.load(Ordering::SeqCst);
    match out {
        Ok(s) => println!("type={} input_len={} {} max_alloc_request={}", name, bytes.len(), s, max_req),
        Err(_) => println!("type={} input_len={} outcome=PANIC max_alloc_request={}", name, bytes.len(), max_req),
    }
}

fn main() {
    let args: Vec<String> = std::env::args().collect();
    if args.len() < 4 || args[1] != "decode" {
        eprintln!("usage: slicec-replay decode <type> <hex>");
        std::process::exit(2);
    }
    std::panic::set_hook(Box::new(|_| {}));
    let b = hex(&args[3]);
    let t = args[2].as_str();
    match t {
        "bool" => report(t, &b, |d| d.decode::<bool>()),
        "u8" => report(t, &b, |d| d.decode::<u8>()),
        "i8" => report(t, &b, |d| d.decode::<i8>()),
        "u16" => report(t, &b, |d| d.decode::<u16>()),
        "i16" => report(t, &b, |d| d.decode::<i16>()),
        "u32" => report(t, &b, |d| d.decode::<u32>()),
        "i32" => report(t, &b, |d| d.decode::<i32>()),
        "u64" => report(t, &b, |d| d.decode::<u64>()),
        "i64" => report(t, &b, |d| d.decode::<i64>()),
        "f32" => report(t, &b, |d| d.decode::<f32>().map(|x| x.to_bits())),
        "f64" => report(t, &b, |d| d.decode::<f64>().map(|x| x.to_bits())),
        "varint32" => report(t, &b, |d| d.decode_varint::<i32>()),
        "varint62" => report(t, &b, |d| d.decode_varint::<i64>()),
        "varuint32" => report(t, &b, |d| d.decode_varuint::<u32>()),
        "varuint62" => report(t, &b, |d| d.decode_varuint::<u64>()),
        "size" => report(t, &b, |d| d.decode_size()),
        "string" => report(t, &b, |d| d.decode::<String>()),
        "vec_u8" => report(t, &b, |d| d.decode::<Vec<u8>>().map(|v| v.len())),
        "vec_u64" => report(t, &b, |d| d.decode::<Vec<u64>>().map(|v| v.len())),
        "vec_string" => report(t, &b, |d| d.decode::<Vec<String>>().map(|v| v.len())),
        "hashmap_u8_u8" => report(t, &b, |d| d.decode::<HashMap<u8, u8>>().map(|v| v.len())),
        "btreemap_u8_u8" => report(t, &b, |d| d.decode::<BTreeMap<u8, u8>>().map(|v| v.len())),
        "hashmap_string_string" => report(t, &b, |d| d.decode::<HashMap<String, String>>().map(|v| v.len())),
        "skip_tagged" => report(t, &b, |d| d.skip_tagged_fields()),
        _ => {
            eprintln!("unknown type {}", t);
            std::process::exit(2);
        }
    }
}
