// ---- shims for slice_file.rs get_highlight (C09) -------------------------------------------------------
// The iterator-adapter chains and the console/format! calls are replaced (R12 regions) by these
// functions; each body is the std / console call it stands for, each contract is ASSUMED.
/// `console::StyledObject<String>`: opaque; `shown()` = the text it displays (styling escapes aside)
#[verifier::external_body] pub struct StyledText { _p: () }
impl StyledText { pub uninterp spec fn shown(&self) -> Seq<char>; }
/// R12 `line.chars().take(n)`: the first n characters (all of them if there are fewer)
#[verifier::external_body]
pub fn shim_chars_take(line: &str, n: usize) -> (r: Vec<char>)
    ensures r@ == line@.take(if n as int <= line@.len() { n as int } else { line@.len() as int }),
{ line.chars().take(n).collect() }
/// R12 `line.chars().skip(a).take(n).filter(|c| *c == '\t').count()`
#[verifier::external_body]
pub fn shim_count_tabs(line: &str, a: usize, n: usize) -> (r: usize)
    ensures a + n <= line@.len() ==> r == count_tabs(line@.subrange(a as int, a + n)),
{ line.chars().skip(a).take(n).filter(|c| *c == '\t').count() }
/// R12 `style(r"/\".to_owned()).yellow().bold()`
#[verifier::external_body]
pub fn shim_style_point() -> (r: StyledText) ensures r.shown() == point_marker() { unimplemented!() }
/// R12 `style(format!("{:-<1$}", "", n)).yellow().bold()`: n dashes
#[verifier::external_body]
pub fn shim_style_dashes(n: usize) -> (r: StyledText) ensures r.shown() == run_of('-', n as nat) { unimplemented!() }
/// R12 `" ".repeat(n) + &highlight.to_string()`
#[verifier::external_body]
pub fn shim_pad_and_append(n: usize, h: &StyledText) -> (r: String) ensures r@ == run_of(' ', n as nat) + h.shown() { unimplemented!() }
/// `EXPANDED_TAB.len()` (a str's byte length; the constant is ASCII so bytes == characters -- assumed)
#[verifier::external_body]
pub fn shim_tab_len() -> (r: usize) ensures r == tabw() { EXPANDED_TAB.len() }
