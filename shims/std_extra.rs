// ---- std methods this vstd has no specification for (assumed; exact std semantics) -----------------
// They are NOT used by the pinned tree: they are declared so that a change which starts using one of
// them stays inside the verifier's reach (and fails the obligation it breaks) instead of leaving the
// unit undecided.
pub open spec fn spec_abs(x: int) -> int { if x < 0 { -x } else { x } }
pub assume_specification[i8::unsigned_abs](x: i8) -> (r: u8) ensures r as int == spec_abs(x as int);
pub assume_specification[i16::unsigned_abs](x: i16) -> (r: u16) ensures r as int == spec_abs(x as int);
pub assume_specification[i32::unsigned_abs](x: i32) -> (r: u32) ensures r as int == spec_abs(x as int);
pub assume_specification[i64::unsigned_abs](x: i64) -> (r: u64) ensures r as int == spec_abs(x as int);
pub assume_specification[i32::abs](x: i32) -> (r: i32) requires x != i32::MIN, ensures r as int == spec_abs(x as int);
pub assume_specification[i64::abs](x: i64) -> (r: i64) requires x != i64::MIN, ensures r as int == spec_abs(x as int);
// char classification (exact std semantics for the ASCII classes)
pub open spec fn spec_ascii_alphabetic(c: char) -> bool { ('a' <= c && c <= 'z') || ('A' <= c && c <= 'Z') }
pub open spec fn spec_ascii_digit(c: char) -> bool { '0' <= c && c <= '9' }
pub open spec fn spec_ascii_alphanumeric(c: char) -> bool { spec_ascii_alphabetic(c) || spec_ascii_digit(c) }
pub open spec fn spec_ascii_whitespace(c: char) -> bool { c == ' ' || c == '\t' || c == '\n' || c == '\x0C' || c == '\r' }
pub assume_specification[char::is_ascii_alphabetic](c: &char) -> (r: bool) ensures r == spec_ascii_alphabetic(*c);
pub assume_specification[char::is_ascii_digit](c: &char) -> (r: bool) ensures r == spec_ascii_digit(*c);
pub assume_specification[char::is_ascii_alphanumeric](c: &char) -> (r: bool) ensures r == spec_ascii_alphanumeric(*c);
pub assume_specification[char::is_ascii_whitespace](c: &char) -> (r: bool) ensures r == spec_ascii_whitespace(*c);
