// ---- R10 shims: peekable character iterators (thin wrappers delegating 1:1 to std) ----------------
#[verifier::external_body]
pub struct PeekChars<'a> { it: std::iter::Peekable<std::str::Chars<'a>> }
impl<'a> PeekChars<'a> {
    /// the characters not yet consumed
    pub uninterp spec fn view(&self) -> Seq<char>;
    #[verifier::external_body]
    pub fn new(s: &'a str) -> (r: Self)
        ensures r.view() == s@,
    { PeekChars { it: s.chars().peekable() } }
    #[verifier::external_body]
    pub fn next(&mut self) -> (r: Option<char>)
        ensures
            old(self).view().len() == 0 ==> r is None && final(self).view() == old(self).view(),
            old(self).view().len() > 0 ==> r == Some(old(self).view()[0]) && final(self).view() == old(self).view().skip(1),
    { std::iter::Iterator::next(&mut self.it) }
    #[verifier::external_body]
    pub fn peek(&mut self) -> (r: Option<&char>)
        ensures
            final(self).view() == old(self).view(),
            old(self).view().len() == 0 ==> r is None,
            old(self).view().len() > 0 ==> r == Some(&old(self).view()[0]),
    { std::iter::Peekable::peek(&mut self.it) }
}

/// byte offset at which the j-th character of `s` starts (sum of the UTF-8 lengths before it)
pub open spec fn ci_byte_offset(s: Seq<char>, j: int) -> int
    decreases j,
{
    if j <= 0 { 0 } else { ci_byte_offset(s, j - 1) + s[j - 1].len_utf8() as int }
}
#[verifier::external_body]
pub struct PeekCharIndices<'a> { it: std::iter::Peekable<std::str::CharIndices<'a>> }
impl<'a> PeekCharIndices<'a> {
    /// the (byte index, character) pairs not yet consumed
    pub uninterp spec fn view(&self) -> Seq<(usize, char)>;
    pub open spec fn chars(&self) -> Seq<char> { Seq::new(self.view().len(), |i: int| self.view()[i].1) }
    #[verifier::external_body]
    pub fn new(s: &'a str) -> (r: Self)
        ensures r.chars() == s@,
            // `char_indices` pairs every character with the BYTE offset it starts at
            forall|j: int| 0 <= j < r.view().len() ==> (#[trigger] r.view()[j]).0 as int == ci_byte_offset(s@, j),
    { PeekCharIndices { it: s.char_indices().peekable() } }
    #[verifier::external_body]
    pub fn next(&mut self) -> (r: Option<(usize, char)>)
        ensures
            old(self).view().len() == 0 ==> r is None && final(self).view() == old(self).view(),
            old(self).view().len() > 0 ==> r == Some(old(self).view()[0]) && final(self).view() == old(self).view().skip(1),
    { std::iter::Iterator::next(&mut self.it) }
    /// `peek().cloned()` (a copy of the peeked pair; vstd has no clone specification for tuples)
    #[verifier::external_body]
    pub fn peek_cloned(&mut self) -> (r: Option<(usize, char)>)
        ensures
            final(self).view() == old(self).view(),
            old(self).view().len() == 0 ==> r is None,
            old(self).view().len() > 0 ==> r == Some(old(self).view()[0]),
    { std::iter::Peekable::peek(&mut self.it).cloned() }
    #[verifier::external_body]
    pub fn peek(&mut self) -> (r: Option<&(usize, char)>)
        ensures
            final(self).view() == old(self).view(),
            old(self).view().len() == 0 ==> r is None,
            old(self).view().len() > 0 ==> r == Some(&old(self).view()[0]),
    { std::iter::Peekable::peek(&mut self.it) }
}
