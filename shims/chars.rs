// ---- R10 shims: peekable character iterators (thin wrappers delegating 1:1 to std) ----------------
#[verifier::external_body]
pub struct PeekChars<'a> { it: std::iter::Peekable<std::str::Chars<'a>> }
impl<'a> PeekChars<'a> {
    /// the characters not yet consumed
    pub uninterp spec fn view(&self) -> Seq<char>;
    #[verifier::external_body]
    pub fn new(s: &'a str) -> (r: Self)
        ensures r.view() == s@,
    { PeekChars { it: s.chars().peekable() } }
    #[verifier::external_body]
    pub fn next(&mut self) -> (r: Option<char>)
        ensures
            old(self).view().len() == 0 ==> r is None && final(self).view() == old(self).view(),
            old(self).view().len() > 0 ==> r == Some(old(self).view()[0]) && final(self).view() == old(self).view().skip(1),
    { self.it.next() }
    #[verifier::external_body]
    pub fn peek(&mut self) -> (r: Option<&char>)
        ensures
            final(self).view() == old(self).view(),
            old(self).view().len() == 0 ==> r is None,
            old(self).view().len() > 0 ==> r == Some(&old(self).view()[0]),
    { self.it.peek() }
}

#[verifier::external_body]
pub struct PeekCharIndices<'a> { it: std::iter::Peekable<std::str::CharIndices<'a>> }
impl<'a> PeekCharIndices<'a> {
    /// the (byte index, character) pairs not yet consumed
    pub uninterp spec fn view(&self) -> Seq<(usize, char)>;
    pub open spec fn chars(&self) -> Seq<char> { Seq::new(self.view().len(), |i: int| self.view()[i].1) }
    #[verifier::external_body]
    pub fn new(s: &'a str) -> (r: Self)
        ensures r.chars() == s@,
    { PeekCharIndices { it: s.char_indices().peekable() } }
    #[verifier::external_body]
    pub fn next(&mut self) -> (r: Option<(usize, char)>)
        ensures
            old(self).view().len() == 0 ==> r is None && final(self).view() == old(self).view(),
            old(self).view().len() > 0 ==> r == Some(old(self).view()[0]) && final(self).view() == old(self).view().skip(1),
    { self.it.next() }
    #[verifier::external_body]
    pub fn peek(&mut self) -> (r: Option<&(usize, char)>)
        ensures
            final(self).view() == old(self).view(),
            old(self).view().len() == 0 ==> r is None,
            old(self).view().len() > 0 ==> r == Some(&old(self).view()[0]),
    { self.it.peek() }
}
