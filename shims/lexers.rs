// ---- shims for the lexer-cursor unit (C09) ---------------------------------------------------------
pub use str_facts::{utf8_len, spec_len_utf8};
pub mod str_facts {
    use vstd::prelude::*;
    /// number of bytes of the UTF-8 encoding of `cs`
    pub open spec fn utf8_len(cs: Seq<char>) -> nat
        decreases cs.len(),
    {
        if cs.len() == 0 { 0 } else { utf8_len(cs.drop_last()) + spec_len_utf8(cs.last()) }
    }
    /// `char::len_utf8` (vstd's specification of the method)
    pub open spec fn spec_len_utf8(c: char) -> nat { c.len_utf8() as nat }
    /// a str holds at most isize::MAX bytes, hence fewer characters than that (Rust language fact)
    pub broadcast axiom fn axiom_str_chars_bound(s: &str)
        ensures #[trigger] s@.len() < usize::MAX / 2, utf8_len(s@) < usize::MAX / 2;
    /// the UTF-8 length of a prefix is at most that of the whole
    pub broadcast axiom fn axiom_utf8_len_prefix(cs: Seq<char>, n: int)
        requires 0 <= n <= cs.len(),
        ensures #[trigger] utf8_len(cs.take(n)) <= utf8_len(cs);
    pub broadcast axiom fn axiom_len_utf8_range(c: char)
        ensures 1 <= #[trigger] spec_len_utf8(c) <= 4;
}
/// R9: `Peekable<T>` over the preprocessor's source-block iterator (generic iterator: opaque)
#[verifier::external_body] #[verifier::accept_recursive_types(T)] pub struct OpaquePeekable<T> { _p: core::marker::PhantomData<T> }

