// ---- shims for the lexer-cursor unit (C09) ---------------------------------------------------------
pub use str_facts::{utf8_len, spec_len_utf8};
pub mod str_facts {
    use vstd::prelude::*;
    /// number of bytes of the UTF-8 encoding of `cs`
    pub open spec fn utf8_len(cs: Seq<char>) -> nat
        decreases cs.len(),
    {
        if cs.len() == 0 { 0 } else { utf8_len(cs.drop_last()) + spec_len_utf8(cs.last()) }
    }
    /// `char::len_utf8` (vstd's specification of the method)
    pub open spec fn spec_len_utf8(c: char) -> nat { c.len_utf8() as nat }
    /// a str holds at most isize::MAX bytes, hence fewer characters than that (Rust language fact)
    pub broadcast axiom fn axiom_str_chars_bound(s: &str)
        ensures #[trigger] s@.len() < usize::MAX / 2, utf8_len(s@) < usize::MAX / 2;
    /// the UTF-8 length of a prefix is at most that of the whole
    pub broadcast axiom fn axiom_utf8_len_prefix(cs: Seq<char>, n: int)
        requires 0 <= n <= cs.len(),
        ensures #[trigger] utf8_len(cs.take(n)) <= utf8_len(cs);
    pub broadcast axiom fn axiom_len_utf8_range(c: char)
        ensures 1 <= #[trigger] spec_len_utf8(c) <= 4;
}
/// R9: `Peekable<T>` over the preprocessor's source-block iterator (generic iterator: opaque)
#[verifier::external_body] #[verifier::accept_recursive_types(T)] pub struct OpaquePeekable<T> { _p: core::marker::PhantomData<T> }


// ---- byte offsets that are character boundaries (str slicing) --------------------------------------
/// `b` is the byte offset of a character boundary of `s`: the UTF-8 length of one of its prefixes
pub open spec fn is_boundary(s: Seq<char>, b: int) -> bool { exists|k: int| 0 <= k <= s.len() && #[trigger] utf8_len(s.take(k)) == b }
/// the character index of boundary `b`
pub open spec fn boundary_index(s: Seq<char>, b: int) -> int { choose|k: int| 0 <= k <= s.len() && #[trigger] utf8_len(s.take(k)) == b }
/// R12 `&s[a..b]`: std panics unless a <= b, both inside s and on character boundaries -- that IS the
/// precondition. Result: the characters between the two boundaries. (ASSUMED contract of str indexing.)
#[verifier::external_body]
pub fn shim_str_slice<'a>(s: &'a str, a: usize, b: usize) -> (r: &'a str)
    requires is_boundary(s@, a as int), is_boundary(s@, b as int), a <= b,
    ensures r@ == s@.subrange(boundary_index(s@, a as int), boundary_index(s@, b as int)),
{ &s[a..b] }
/// R12 `s.len()` of a str: its UTF-8 byte length (std)
#[verifier::external_body]
pub fn shim_str_len(s: &str) -> (r: usize) ensures r == utf8_len(s@) { s.len() }
/// byte offsets grow strictly with the character index
pub proof fn lemma_utf8_len_strict(s: Seq<char>, i: int, j: int)
    requires 0 <= i < j <= s.len(),
    ensures utf8_len(s.take(i)) < utf8_len(s.take(j)),
    decreases j - i,
{
    str_facts::axiom_len_utf8_range(s[j - 1]);
    assert(s.take(j).drop_last() =~= s.take(j - 1));
    assert(s.take(j).last() == s[j - 1]);
    if i < j - 1 { lemma_utf8_len_strict(s, i, j - 1); }
}
/// ... so the boundary index of the byte offset of prefix k is k, and boundaries are ordered like their offsets
pub proof fn lemma_boundary_index(s: Seq<char>, k: int)
    requires 0 <= k <= s.len(),
    ensures is_boundary(s, utf8_len(s.take(k)) as int), boundary_index(s, utf8_len(s.take(k)) as int) == k,
{
    let b = utf8_len(s.take(k)) as int;
    let k2 = boundary_index(s, b);
    if k2 < k { lemma_utf8_len_strict(s, k2, k); }
    if k < k2 { lemma_utf8_len_strict(s, k, k2); }
}
pub proof fn lemma_boundary_order(s: Seq<char>, a: int, b: int)
    requires is_boundary(s, a), is_boundary(s, b), a <= b,
    ensures 0 <= boundary_index(s, a) <= boundary_index(s, b) <= s.len(),
{
    let ka = boundary_index(s, a);
    let kb = boundary_index(s, b);
    if kb < ka { lemma_utf8_len_strict(s, kb, ka); }
}

