// ---- shims for slice-codec units (assumed contracts; DESIGN.md section 5) ----------------------

// R5: `x.try_into().unwrap_unchecked()` for `&[u8] -> &[u8; N]`. Precondition = the safety
// condition of the unchecked conversion (lengths equal); effect = same bytes.
#[verifier::external_body]
pub fn shim_as_array<'a, const N: usize>(s: &'a [u8]) -> (r: &'a [u8; N])
    requires s@.len() == N,
    ensures r@ == s@,
{
    s.try_into().unwrap()
}

// R6: `core::ptr::copy_nonoverlapping(src.as_ptr(), dst.as_mut_ptr(), n)` on two byte slices.
// Precondition = its safety condition for slices (both ranges in bounds; non-overlap is
// guaranteed by `&mut`); effect = documented effect, stated over the *whole* destination.
#[verifier::external_body]
pub fn shim_copy_nonoverlapping(n: usize, src: &[u8], dst: &mut [u8])
    requires n <= src@.len(), n <= old(dst)@.len(),
    ensures final(dst)@ == src@.subrange(0, n as int) + old(dst)@.subrange(n as int, old(dst)@.len() as int),
{
    dst[..n].copy_from_slice(&src[..n]);
}

// Opaque std error payloads (rule R9): the types keep their names, nothing is known about them.
#[verifier::external_type_specification]
#[verifier::external_body]
pub struct ExFromUtf8Error(std::string::FromUtf8Error);

// R9: `Box<dyn core::error::Error + Send + Sync>` (multi-trait dyn is not representable in this
// Verus). The field keeps its name and position; no function under contract looks inside it.
#[verifier::external_body]
pub struct OpaqueErrorSource(Box<dyn core::error::Error + Send + Sync + 'static>);

// `Range<Idx>: Clone` clones both ends (std's derived impl).
pub assume_specification<Idx: Clone>[<Range<Idx> as Clone>::clone](r: &Range<Idx>) -> (res: Range<Idx>)
    ensures cloned(r.start, res.start), cloned(r.end, res.end);
// `bool::then_some` (std): Some(t) when the receiver is true.
pub assume_specification<T>[bool::then_some](b: bool, t: T) -> (r: Option<T>)
    ensures r == (if b { Some(t) } else { None::<T> });
// Rendering the opaque source delegates to the boxed std error's Display (trusted, std).
impl core::fmt::Display for OpaqueErrorSource {
    #[verifier::external_body]
    fn fmt(&self, f: &mut core::fmt::Formatter<'_>) -> core::fmt::Result { self.0.fmt(f) }
}
