// ---- shims for the rule-function unit (C04) --------------------------------------------------------
impl Element for Primitive {}
impl Type for Primitive {}

// Assumed accessors (grammar/traits.rs + macro-generated impls: Container::contents is
// `iter().map(WeakPtr::borrow).collect()`, an iterator adapter): they return the targets in order.
pub open spec fn targets_of<T>(ptrs: Seq<WeakPtr<T>>, refs: Seq<&T>) -> bool {
    refs.len() == ptrs.len() && forall|i: int| 0 <= i < refs.len() ==> *(#[trigger] refs[i]) == ptrs[i].target()
}
/// the same, for a by-value loop over the accessor's result: elements already produced (`done`) and
/// still to come (`todo`) are the targets, in order
pub open spec fn iter_targets<T>(ptrs: Seq<WeakPtr<T>>, done: Seq<&T>, todo: Seq<&T>) -> bool {
    done.len() + todo.len() == ptrs.len()
        && (forall|i: int| 0 <= i < done.len() ==> *(#[trigger] done[i]) == ptrs[i].target())
        && (forall|j: int| 0 <= j < todo.len() ==> *(#[trigger] todo[j]) == ptrs[done.len() + j].target())
}
impl Struct {
    #[verifier::external_body] pub fn fields(&self) -> (r: Vec<&Field>) ensures targets_of(self.fields@, r@) { unimplemented!() }
    #[verifier::external_body] pub fn span(&self) -> &Span { unimplemented!() }
    #[verifier::external_body] pub fn identifier(&self) -> &str { unimplemented!() }
    #[verifier::external_body] pub fn kind(&self) -> &'static str { unimplemented!() }
}
impl Field {
    #[verifier::external_body] pub fn is_tagged(&self) -> (r: bool) ensures r == (self.tag is Some) { unimplemented!() }
    #[verifier::external_body] pub fn span(&self) -> &Span { unimplemented!() }
}
impl Enum {
    #[verifier::external_body] pub fn enumerators(&self) -> (r: Vec<&Enumerator>) ensures targets_of(self.enumerators@, r@) { unimplemented!() }
    #[verifier::external_body] pub fn span(&self) -> &Span { unimplemented!() }
    #[verifier::external_body] pub fn identifier(&self) -> &str { unimplemented!() }
    #[verifier::external_body] pub fn kind(&self) -> &'static str { unimplemented!() }
}
/// `Enumerator::value()` (a two-arm match over the opaque EnumeratorValue): the enumerator's numeric value
pub uninterp spec fn spec_value(v: EnumeratorValue) -> i128;
impl Enumerator {
    #[verifier::external_body] pub fn value(&self) -> (r: i128) ensures r == spec_value(self.value) { unimplemented!() }
    #[verifier::external_body]
    pub fn fields(&self) -> (r: Vec<&Field>)
        ensures match self.fields { Some(fs) => targets_of(fs@, r@), None => r@.len() == 0 },
    { unimplemented!() }
    #[verifier::external_body] pub fn span(&self) -> &Span { unimplemented!() }
    #[verifier::external_body] pub fn identifier(&self) -> &str { unimplemented!() }
}
impl TypeAlias { #[verifier::external_body] pub fn span(&self) -> &Span { unimplemented!() } }
impl<T: Element + ?Sized> TypeRef<T> { #[verifier::external_body] pub fn span(&self) -> &Span { unimplemented!() } }
/// `TypeRef<Primitive>` derefs to the primitive it designates (patched by then): trusted accessor
pub uninterp spec fn prim_of(t: TypeRef<Primitive>) -> Primitive;
impl TypeRef<Primitive> {
    #[verifier::external_body] pub fn definition(&self) -> (r: &Primitive) ensures *r == prim_of(*self) { unimplemented!() }
    #[verifier::external_body] pub fn is_integral(&self) -> (r: bool) ensures r == spec_is_integral(prim_of(*self)) { unimplemented!() }
}
impl Primitive { #[verifier::external_body] pub fn kind(&self) -> &'static str { unimplemented!() } }

/// the kinds of the diagnostics, in order: what "diagnosed with the code that belongs to the rule" means
pub open spec fn kinds(d: Seq<Diagnostic>) -> Seq<DiagnosticKind> { Seq::new(d.len(), |i: int| d[i].kind) }

// ---- the validators this unit does NOT put under contract (closures / iterator adapters / dyn):
// assumed to be append-only on the diagnostics. Listed as not claimed in the evidence.
#[verifier::external_body] pub fn validate_common_doc_comments<T>(x: &T, diagnostics: &mut Diagnostics) ensures d_prefix(old(diagnostics).0@, final(diagnostics).0@) { unimplemented!() }
#[verifier::external_body] pub fn validate_attributes<T: ?Sized>(x: &T, diagnostics: &mut Diagnostics) ensures d_prefix(old(diagnostics).0@, final(diagnostics).0@) { unimplemented!() }
#[verifier::external_body] pub fn validate_members<T>(members: Vec<&T>, diagnostics: &mut Diagnostics) ensures d_prefix(old(diagnostics).0@, final(diagnostics).0@) { unimplemented!() }
#[verifier::external_body] pub fn validate_inherited_identifiers(a: Vec<&Operation>, b: Vec<&Operation>, diagnostics: &mut Diagnostics) ensures d_prefix(old(diagnostics).0@, final(diagnostics).0@) { unimplemented!() }
#[verifier::external_body] pub fn validate_operation(operation: &Operation, diagnostics: &mut Diagnostics) ensures d_prefix(old(diagnostics).0@, final(diagnostics).0@) { unimplemented!() }
#[verifier::external_body] pub fn validate_parameters(members: &[&Parameter], diagnostics: &mut Diagnostics) ensures d_prefix(old(diagnostics).0@, final(diagnostics).0@) { unimplemented!() }
#[verifier::external_body] pub fn validate_dictionary(dictionary: &Dictionary, diagnostics: &mut Diagnostics) ensures d_prefix(old(diagnostics).0@, final(diagnostics).0@) { unimplemented!() }
#[verifier::external_body] pub fn backing_type_bounds(enum_def: &Enum, diagnostics: &mut Diagnostics) ensures d_prefix(old(diagnostics).0@, final(diagnostics).0@) { unimplemented!() }
impl Enumerator { #[verifier::external_body] pub fn contents(&self) -> Vec<&Field> { unimplemented!() } }
impl Interface {
    #[verifier::external_body] pub fn operations(&self) -> Vec<&Operation> { unimplemented!() }
    #[verifier::external_body] pub fn all_inherited_operations(&self) -> Vec<&Operation> { unimplemented!() }
}
impl Operation {
    #[verifier::external_body] pub fn parameters(&self) -> Vec<&Parameter> { unimplemented!() }
    #[verifier::external_body] pub fn return_members(&self) -> Vec<&Parameter> { unimplemented!() }
}
#[verifier::external_body] pub fn shim_concrete_type<'a>(t: &'a TypeRef) -> Types<'a> { unimplemented!() }
#[verifier::external_body] pub struct Ast { _p: () }
#[verifier::external_body] #[verifier::accept_recursive_types(T)] pub struct OwnedPtr<T> { _p: core::marker::PhantomData<T> }
/// R16: `RangeInclusive::new(lo, hi).contains(&x)` (std)
#[verifier::external_body]
pub fn shim_range_inclusive_contains(lo: i128, hi: i128, x: &i128) -> (r: bool)
    ensures r == (lo <= *x <= hi),
{ core::ops::RangeInclusive::new(lo, hi).contains(x) }
