// ---- shims for the generator-reply unit (C18) -------------------------------------------------------
// TRUSTED: the decoder (its own contracts are C10/C11's), std::fs, std::path, println!. Each is an R12/R16 region whose shim
// carries (a) what the std call is documented to do, as far as the contracts need it, and (b) -- on the calls that CHANGE THE
// DISK -- the property's clauses as PERMISSION preconditions.
#[verifier::external_body] pub struct IoError { _p: () }
pub type IoResult = core::result::Result<(), IoError>;
#[verifier::external_body] pub struct OutPath { _p: () }
#[verifier::external_body] pub struct OutFile { _p: () }
pub struct ReplyDiagnostic { pub message: String }
#[verifier::external_body] pub struct Diagnostics { _p: () }

/// the two sequences of a generator's reply, as functions of the payload (what `Decoder::decode` computes: C10/C11)
pub uninterp spec fn reply_files(payload: Seq<u8>) -> Option<Seq<GeneratedFile>>;
/// both sequences decoded: the reply is COMPLETE
pub uninterp spec fn fully_decoded(payload: Seq<u8>) -> bool;
/// "files are written only from a successfully decoded reply"
pub open spec fn from_decoded_reply(f: GeneratedFile) -> bool {
    exists|p: Seq<u8>| fully_decoded(p) && (#[trigger] reply_files(p)) is Some && reply_files(p)->Some_0.contains(f)
}

pub struct ReplyDecoder { pub payload: Ghost<Seq<u8>>, pub stage: Ghost<int> }
/// `Decoder::from(&response_payload)`
#[verifier::external_body]
pub fn shim_reply_decoder(payload: &Vec<u8>) -> (r: ReplyDecoder)
    ensures r.payload@ == payload@, r.stage@ == 0,
{ unimplemented!() }
/// `slice_decoder.decode()?` for the sequence of generated files (the `?` converts the codec error into an io::Error)
#[verifier::external_body]
pub fn shim_decode_files(d: &mut ReplyDecoder) -> (r: core::result::Result<Vec<GeneratedFile>, IoError>)
    ensures final(d).payload@ == old(d).payload@,
        r is Ok ==> (old(d).stage@ == 0 ==> final(d).stage@ == 1 && reply_files(old(d).payload@) == Some(r->Ok_0@)),
{ unimplemented!() }
/// `slice_decoder.decode()?` for the sequence of diagnostics
#[verifier::external_body]
pub fn shim_decode_diagnostics(d: &mut ReplyDecoder) -> (r: core::result::Result<Vec<ReplyDiagnostic>, IoError>)
    ensures final(d).payload@ == old(d).payload@,
        r is Ok ==> (old(d).stage@ == 1 ==> final(d).stage@ == 2 && fully_decoded(old(d).payload@)),
{ unimplemented!() }
#[verifier::external_body] pub fn shim_print_message(m: &String) { }

impl Diagnostics {
    pub uninterp spec fn errors(&self) -> nat;
    #[verifier::external_body] pub fn new() -> (r: Self) ensures r.errors() == 0 { unimplemented!() }
    #[verifier::external_body] pub fn has_errors(&self) -> (r: bool) ensures r == (self.errors() > 0) { unimplemented!() }
}
/// `Diagnostic::new(Error::IO { action: "write generated file", path, error }).push_into(&mut diagnostics)`
#[verifier::external_body]
pub fn shim_push_write_error(diagnostics: &mut Diagnostics, path: &String, error: IoError)
    ensures final(diagnostics).errors() == old(diagnostics).errors() + 1,
{ unimplemented!() }

// ---- the file system, as far as write_generated_file's clauses need it ------------------------------------------------
pub uninterp spec fn path_of(p: OutPath) -> Seq<char>;
/// std's `PathBuf::from(dir).join(rel)` (for a relative `rel`: `rel` below `dir`)
pub uninterp spec fn joined(dir: Seq<char>, rel: Seq<char>) -> Seq<char>;
/// "relative paths are placed below the output directory"
pub open spec fn target_of(output_dir: Option<String>, rel: Seq<char>) -> Seq<char> {
    match output_dir { Some(d) => joined(d@, rel), None => rel }
}
/// what reading the file at a path yields when write_generated_file starts (None: it cannot be read -- no such file, a directory, no permission)
pub uninterp spec fn on_disk(path: Seq<char>) -> Option<Seq<u8>>;

#[verifier::external_body] pub fn shim_as_bytes(s: &String) -> (r: &[u8]) { unimplemented!() }
#[verifier::external_body] pub fn shim_path_join(dir: &String, rel: &String) -> (r: OutPath) ensures path_of(r) == joined(dir@, rel@) { unimplemented!() }
#[verifier::external_body] pub fn shim_path_from(rel: &String) -> (r: OutPath) ensures path_of(r) == rel@ { unimplemented!() }
/// `std::fs::read(&path)`
#[verifier::external_body]
pub fn shim_fs_read(p: &OutPath) -> (r: core::result::Result<Vec<u8>, IoError>)
    ensures r is Ok ==> on_disk(path_of(*p)) == Some(r->Ok_0@), r is Err ==> on_disk(path_of(*p)) is None,
{ unimplemented!() }
/// `current_contents == generated_file_bytes` (Vec<u8> == &[u8])
#[verifier::external_body] pub fn shim_bytes_eq(a: &Vec<u8>, b: &[u8]) -> (r: bool) ensures r == (a@ == b@) { unimplemented!() }

impl OutFile {
    pub uninterp spec fn intended(&self) -> Seq<u8>;
}
/// `File::create(&path)?` -- creating TRUNCATES: this is the call that touches the disk. The ghost arguments name what the
/// function is about to write and where the property says it belongs.
#[verifier::external_body]
pub fn shim_file_create(p: &OutPath, intended: Ghost<Seq<u8>>, expected_path: Ghost<Seq<char>>) -> (r: core::result::Result<OutFile, IoError>)
    requires
        on_disk(path_of(*p)) != Some(intended@),   /*@cl C18.file.identical_content_untouched|permission*/
        path_of(*p) == expected_path@,             /*@cl C18.file.below_output_directory|permission*/
    ensures r is Ok ==> (r->Ok_0).intended() == intended@,
{ unimplemented!() }
/// `file.write_all(bytes)?`
#[verifier::external_body]
pub fn shim_write_all(f: &mut OutFile, bytes: &[u8]) -> (r: IoResult)
    requires bytes@ == old(f).intended(),          /*@cl C18.file.writes_the_generated_content|permission*/
{ unimplemented!() }
