// ---- R7 shims: formatting sinks (text content is not part of any claimed obligation) -------------
// Arguments are still evaluated (so a panic inside an argument expression remains an obligation).
#[verifier::external_body]
pub fn shim_write_fmt(f: &mut core::fmt::Formatter<'_>) -> (r: core::fmt::Result)
{
    f.write_str("")
}
#[verifier::external_body]
pub fn shim_write_fmt_args<T: ?Sized>(f: &mut core::fmt::Formatter<'_>, args: &[&T]) -> (r: core::fmt::Result)
{
    f.write_str("")
}
#[verifier::external_body]
pub fn shim_arg<T: ?Sized>(x: &T) -> (r: &T) { x }
pub assume_specification<'a>[core::fmt::Formatter::<'a>::write_str](f: &mut core::fmt::Formatter<'a>, s: &str) -> core::result::Result<(), core::fmt::Error>;
// `write!(f, ...)` expands to `f.write_fmt(format_args!(...))`: the sink is opaque, no precondition.
pub assume_specification<'a>[core::fmt::Formatter::<'a>::write_fmt](f: &mut core::fmt::Formatter<'a>, args: core::fmt::Arguments<'_>) -> core::result::Result<(), core::fmt::Error>;
// std error payloads render without precondition (trusted, std Display impls).
pub mod fmt_facts {
    use vstd::prelude::*;
    use vstd::std_specs::fmt::*;
    pub broadcast axiom fn axiom_fmt_req_try_reserve_error()
        ensures #[trigger] fmt_req_all::<std::collections::TryReserveError>();
    pub broadcast axiom fn axiom_fmt_req_from_utf8_error()
        ensures #[trigger] fmt_req_all::<std::string::FromUtf8Error>();
}
