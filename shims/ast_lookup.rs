// ---- shims for the AST lookup unit (C03) -----------------------------------------------------------
#[verifier::external_body] pub struct Node { _p: () }
#[verifier::external_body] #[verifier::accept_recursive_types(T)] pub struct OwnedPtr<T> { _p: core::marker::PhantomData<T> }
#[verifier::external_body] #[verifier::accept_recursive_types(T)] pub struct WeakPtr<T> { _p: core::marker::PhantomData<T> }
pub trait Element {}
pub trait NamedSymbol: Element {
    /// the fully scoped name the parser recorded for this element (trusted accessor)
    spec fn spec_parser_scoped_identifier(&self) -> Seq<char>;
    fn parser_scoped_identifier(&self) -> (r: String)
        ensures r@ == self.spec_parser_scoped_identifier();
}
impl<T> OwnedPtr<T> {
    pub uninterp spec fn target(&self) -> T;
    #[verifier::external_body] pub fn borrow(&self) -> (r: &T) ensures *r == self.target() { unimplemented!() }
    #[verifier::external_body] pub fn downgrade(&self) -> (r: WeakPtr<T>) { unimplemented!() }
}
pub uninterp spec fn node_of<T>(p: OwnedPtr<T>) -> Node;

// String / str API used by find_node_with_scope (assumed algebra over Seq<char>).
/// R12 region `identifier.strip_prefix("::")` (generic over std's Pattern: no assume_specification possible)
#[verifier::external_body]
pub fn shim_strip_global_prefix<'a>(s: &'a str) -> (r: Option<&'a str>)
    ensures r is Some <==> is_global(s@), r is Some ==> r->Some_0@ == s@.skip(2),
{ s.strip_prefix("::") }

/// R12 region `scope.split("::").collect::<Vec<_>>()`: the scope's segments (never empty: splitting
/// the empty string yields one empty segment); joining them back with "::" gives the scope.
#[verifier::external_body]
pub fn shim_split_scope<'a>(scope: &'a str) -> (r: Vec<&'a str>)
    ensures r@.len() >= 1, seg_views(r@) == scope_segments(scope@),
{ scope.split("::").collect::<Vec<_>>() }

/// the "::"-separated segments of a scope (uninterpreted: defined by std's `split`; joining them
/// with "::" gives the scope back)
pub uninterp spec fn scope_segments(scope: Seq<char>) -> Seq<Seq<char>>;

pub open spec fn seg_views(v: Seq<&str>) -> Seq<Seq<char>> { Seq::new(v.len(), |i: int| v[i]@) }

/// R12 region `scopes.join("::") + "::" + identifier`
#[verifier::external_body]
pub fn shim_candidate(scopes: &Vec<&str>, identifier: &str) -> (r: String)
    ensures r@ == candidate_name(seg_views(scopes@), scopes@.len() as int, identifier@),
{ scopes.join("::") + "::" + identifier }

// assumed: std String/str Borrow + Hash + Eq agree -- a HashMap<String, V> looked up with a &str
// or a &String finds the entry whose key has the same characters (same assumption as C06's unit).
pub mod table_key_facts {
    use vstd::prelude::*;
    use vstd::std_specs::hash::*;
    use super::*;
    pub axiom fn axiom_table_str_key(m: Map<String, usize>, k: &str)
        ensures
            obeys_key_model::<String>(),
            contains_borrowed_key::<String, usize, str>(m, k) <==> t_has(m, k@),
            t_has(m, k@) ==> maps_borrowed_key_to_value::<String, usize, str>(m, k, t_get(m, k@)),
            forall|v: usize| #[trigger] maps_borrowed_key_to_value::<String, usize, str>(m, k, v) ==> t_has(m, k@) && v == t_get(m, k@);
    pub axiom fn axiom_table_string_key(m: Map<String, usize>, k: &String)
        ensures
            obeys_key_model::<String>(),
            contains_borrowed_key::<String, usize, String>(m, k) <==> t_has(m, k@),
            t_has(m, k@) ==> maps_borrowed_key_to_value::<String, usize, String>(m, k, t_get(m, k@)),
            forall|v: usize| #[trigger] maps_borrowed_key_to_value::<String, usize, String>(m, k, v) ==> t_has(m, k@) && v == t_get(m, k@);
    /// Strings are determined by their characters
    pub axiom fn axiom_string_view_injective(a: String, b: String)
        ensures a@ == b@ ==> a == b;
}
pub use table_key_facts::{axiom_table_str_key, axiom_table_string_key, axiom_string_view_injective};

/// R12 region `scope.to_owned() + "::" + identifier` (String `+` makes this Verus fail internally)
#[verifier::external_body]
pub fn shim_concat_scoped(scope: &str, identifier: &str) -> (r: String)
    ensures r@ == scope@ + sep() + identifier@,
{ scope.to_owned() + "::" + identifier }
