// ---- shims for the diagnostic-emitter unit (C14) ---------------------------------------------------
// TRUSTED: everything that turns values into BYTES -- console::style, format!/writeln!, serde_json's
// serializer, SliceFile::get_snippet (C09). Each such statement is an R12/R16 region replaced by a shim
// whose only effect is to append one EVENT, carrying the values it was given, to the ghost log of the
// output it writes to. What the contracts decide is WHICH events are written, with which values, in which
// order -- for every list of diagnostics. The byte level is the bounded stand-in `emission`'s.
#[verifier::external_body] pub struct Error { _p: () }
#[verifier::external_body] pub struct SliceFile { _p: () }
#[verifier::external_body] pub struct IoError { _p: () }
pub type IoResult = core::result::Result<(), IoError>;

/// what reaches the diagnostic stream, one event per write statement
pub enum Ev {
    /// console colours switched off (a process-wide switch; logged on the stream it protects)
    ColoursOff,
    /// `error [CODE]: message` / `warning [CODE]: message`
    Header { level: DiagnosticLevel, code: Seq<char>, message: Seq<char> },
    /// ` --> file:row:col`
    Arrow { file: Seq<char>, row: usize, col: usize },
    /// the source lines between two locations of a file
    Snippet { file: Seq<char>, start: Location, end: Location },
    /// `note: message`
    NoteLine { message: Seq<char> },
    /// one JSON object with the five fields of a diagnostic
    Json { message: Seq<char>, severity: Seq<char>, span: Option<Span>, notes: Seq<Note>, code: Seq<char> },
    Newline,
}

/// std::io::Write, seen as an append-only log of events
pub trait Write {
    spec fn log(&self) -> Seq<Ev>;
}

/// Diagnostic::code / Diagnostic::message dispatch into macro-generated tables (diagnostics/mod.rs): uninterpreted
pub uninterp spec fn spec_code(d: Diagnostic) -> Seq<char>;
pub uninterp spec fn spec_message(d: Diagnostic) -> Seq<char>;

#[verifier::external_body] pub struct Prefix { _p: () }
pub uninterp spec fn prefix_level(p: Prefix) -> DiagnosticLevel;
pub uninterp spec fn prefix_code(p: Prefix) -> Seq<char>;
/// `console::style(format!("error [{code}]")).red().bold()`
#[verifier::external_body]
pub fn shim_prefix_error(code: &str) -> (r: Prefix)
    ensures prefix_level(r) == DiagnosticLevel::Error, prefix_code(r) == code@,
{ unimplemented!() }
/// `console::style(format!("warning [{code}]")).yellow().bold()`
#[verifier::external_body]
pub fn shim_prefix_warning(code: &str) -> (r: Prefix)
    ensures prefix_level(r) == DiagnosticLevel::Warning, prefix_code(r) == code@,
{ unimplemented!() }
/// `writeln!(self.output, "{prefix}: {}", console::style(MESSAGE).bold())`
#[verifier::external_body]
pub fn shim_write_header<T: Write>(out: &mut T, prefix: &Prefix, message: String) -> (r: IoResult)
    ensures r is Ok ==> final(out).log() == old(out).log().push(Ev::Header { level: prefix_level(*prefix), code: prefix_code(*prefix), message: message@ }),
{ unimplemented!() }
/// `writeln!(self.output, "{}: {}", console::style("note").blue().bold(), console::style(MESSAGE).bold())`
#[verifier::external_body]
pub fn shim_write_note<T: Write>(out: &mut T, message: &String) -> (r: IoResult)
    ensures r is Ok ==> final(out).log() == old(out).log().push(Ev::NoteLine { message: message@ }),
{ unimplemented!() }
/// `writeln!(self.output, " {} {}:{}:{}", console::style("-->").blue().bold(), Path::new(FILE).display(), ROW, COL)`
#[verifier::external_body]
pub fn shim_write_arrow<T: Write>(out: &mut T, file: &String, row: usize, col: usize) -> (r: IoResult)
    ensures r is Ok ==> final(out).log() == old(out).log().push(Ev::Arrow { file: file@, row, col }),
{ unimplemented!() }
/// `let file = self.files.iter().find(|f| f.relative_path == FILE).unwrap(); writeln!(self.output, "{}", file.get_snippet(START, END))`
#[verifier::external_body]
pub fn shim_write_snippet<T: Write>(out: &mut T, files: &[SliceFile], file: &String, start: Location, end: Location) -> (r: IoResult)
    ensures r is Ok ==> final(out).log() == old(out).log().push(Ev::Snippet { file: file@, start, end }),
{ unimplemented!() }
/// the serde_json block: Serializer::new, serialize_struct("Diagnostic", 5), five serialize_field calls, end()
#[verifier::external_body]
pub fn shim_write_json_object<T: Write>(out: &mut T, message: String, severity: &str, span: Option<&Span>, notes: &[Note], code: &str) -> (r: IoResult)
    ensures r is Ok ==> final(out).log() == old(out).log().push(Ev::Json {
        message: message@, severity: severity@, span: match span { Some(s) => Some(*s), None => None }, notes: notes@, code: code@ }),
{ unimplemented!() }
/// `writeln!(self.output)`
#[verifier::external_body]
pub fn shim_write_newline<T: Write>(out: &mut T) -> (r: IoResult)
    ensures r is Ok ==> final(out).log() == old(out).log().push(Ev::Newline),
{ unimplemented!() }
/// `console::set_colors_enabled(false); console::set_colors_enabled_stderr(false);`
#[verifier::external_body]
pub fn shim_disable_colours<T: Write>(out: &mut T)
    ensures final(out).log() == old(out).log().push(Ev::ColoursOff),
{ unimplemented!() }
