// ---- shims for the diagnostics units --------------------------------------------------------------
// The error catalogue (diagnostics/errors.rs: ~60 variants incl. std::io::Error payloads) is opaque:
// no contract here depends on WHICH error a diagnostic carries, only on it being one.
#[verifier::external_body] pub struct Error { _p: () }
#[verifier::external_body] pub struct Span { _p: () }
// derived Clone of Span (slice_file.rs): a copy equal to the original (assumed)
impl Clone for Span { #[verifier::external_body] fn clone(&self) -> (r: Self) ensures r == *self { unimplemented!() } }
// Opaque compiler state the gate does not look into.
#[verifier::external_body] pub struct Ast { _p: () }
#[verifier::external_body] pub struct SliceFile { _p: () }

// `Vec::extend(other_vec)` appends the other vector's elements in order (std; assumed).
#[verifier::external_body]
pub fn shim_vec_extend<T>(v: &mut Vec<T>, other: Vec<T>)
    ensures final(v)@ == old(v)@ + other@,
{ v.extend(other) }
impl Default for Ast { #[verifier::external_body] fn default() -> Self { unimplemented!() } }

// ---- main(): the explicitly unverified regions (rule R12) and process exit codes ----------------
#[verifier::external_type_specification]
#[verifier::external_body]
pub struct ExExitCode(std::process::ExitCode);
pub uninterp spec fn exit_status(e: std::process::ExitCode) -> int;
#[verifier::external_body] pub fn shim_exit_success() -> (r: std::process::ExitCode) ensures exit_status(r) == 0 { std::process::ExitCode::SUCCESS }
#[verifier::external_body] pub fn shim_exit_failure() -> (r: std::process::ExitCode) ensures exit_status(r) == 1 { std::process::ExitCode::FAILURE }
#[verifier::external_body] pub fn shim_exit_from(n: u8) -> (r: std::process::ExitCode) ensures exit_status(r) == n { std::process::ExitCode::from(n) }

/// clap's argument parser (trusted).
#[verifier::external_body] pub fn stub_parse_options() -> SliceOptions { unimplemented!() }

/// The whole compilation (lib.rs compile_from_options and everything below it): trusted HERE; its
/// own gating is verified separately (compile_from_options below).
#[verifier::external_body]
pub fn stub_compile_from_options(options: &SliceOptions) -> (r: CompilationState)
    // ASSUMED: every Diagnostic the compiler produces was built by Diagnostic::new (the only
    // constructor -- the fields are private; `new` is verified to establish diag_ok) and the
    // builder methods set_span/set_scope/add_note do not touch kind or level.
    ensures all_ok(r.diagnostics.0@),
{ unimplemented!() }

/// encode_generate_code_request (main.rs; its encoding contract is C08's): here only "may fail".
#[verifier::external_body]
pub fn encode_generate_code_request(parsed_files: &[SliceFile]) -> (r: core::result::Result<Vec<u8>, OpaqueCodecError>) { unimplemented!() }
#[verifier::external_body] pub struct OpaqueCodecError { _p: () }
#[verifier::external_body] pub fn shim_eprint_critical(e: &OpaqueCodecError) { }

/// THE GENERATOR REGION (spawn every generator, collect replies, write files, gather their
/// diagnostics): process I/O, outside this technique (C18). What the contract pins is the
/// PERMISSION to enter it: generators may be started only after an error-free compilation and only
/// when generation was not turned off. It can only append diagnostics.
#[verifier::external_body]
pub fn stub_run_generators(options: &SliceOptions, encoded_request: &Vec<u8>, diagnostics: &mut Diagnostics)
    requires
        !has_error_kind(old(diagnostics).0@),   /*@cl C07.gate.no_errors|permission*/
        !options.dry_run,                       /*@cl C07.gate.not_dry_run|permission*/
    ensures
        final(diagnostics).0@.len() >= old(diagnostics).0@.len(),
        final(diagnostics).0@.subrange(0, old(diagnostics).0@.len() as int) == old(diagnostics).0@,
        all_ok(old(diagnostics).0@) ==> all_ok(final(diagnostics).0@),   // same assumption as above
{ unimplemented!() }

/// whether the list handed to the emitter in this run of main() holds an error diagnostic (main emits once; the emission itself is C14's unit)
pub uninterp spec fn emitted_an_error() -> bool;
#[verifier::external_body] pub fn stub_emit_diagnostics(options: &SliceOptions, files: &Vec<SliceFile>, diagnostics: Vec<Diagnostic>)
    ensures emitted_an_error() == has_error_kind(diagnostics@),
{ }
#[verifier::external_body] pub fn stub_emit_totals(warnings: usize, errors: usize) { }

// ---- lib.rs compile_from_options: its callees (trusted here; file_util is C17's unit) -------------
impl Ast { #[verifier::external_body] pub fn create() -> Ast { unimplemented!() } }
#[verifier::external_body]
pub fn resolve_files_from(options: &SliceOptions, diagnostics: &mut Diagnostics) -> (r: Vec<SliceFile>)
    ensures all_ok(old(diagnostics).0@) ==> all_ok(final(diagnostics).0@),
{ unimplemented!() }
/// parse + patch + validate. PERMISSION: entered only if no file error was recorded.
#[verifier::external_body]
pub fn compile_files(state: &mut CompilationState, options: &SliceOptions)
    requires !has_error_kind(old(state).diagnostics.0@),   /*@cl C07.compile.gate|permission*/
    ensures all_ok(old(state).diagnostics.0@) ==> all_ok(final(state).diagnostics.0@),
{ unimplemented!() }

// ---- into_updated (C13): the two nested helper fns and the lookups, as assumed contracts ------------
pub trait Entity {}
/// nested fn `is_lint_allowed_by(identifiers, lint)`: `identifiers.any(|id| id.eq_ignore_ascii_case("All") || id.eq_ignore_ascii_case(lint.code()))`
/// ASSUMED to compute exactly names_allow over the remaining identifiers.
#[verifier::external_body]
pub fn is_lint_allowed_by<'b>(identifiers: core::slice::Iter<'b, String>, lint: &Lint) -> (r: bool)
    // stated for every owned sequence the remaining `&String` items point at (specs/diag_sem.rs
    // lemma_names_refs shows the two formulations agree)
    ensures forall|ids: Seq<String>| ids.len() == identifiers.remaining().len()
        && (forall|i: int| 0 <= i < ids.len() ==> *#[trigger] identifiers.remaining()[i] == ids[i])
        ==> r == #[trigger] names_allow(ids, *lint),
{ unimplemented!() }
/// nested fn `is_lint_allowed_by_attributes(attributable, lint)`: all_attributes() + downcast::<Allow>()
/// + is_lint_allowed_by per attribute. ASSUMED (uninterpreted attrs_allow).
#[verifier::external_body]
pub fn is_lint_allowed_by_attributes<T: ?Sized>(attributable: &T, lint: &Lint) -> (r: bool)
    ensures r == attrs_allow::<T>(attributable, *lint),
{ unimplemented!() }
/// `files.iter().find(|f| f.relative_path == span.file).expect("no file")` (closure). ASSUMED total:
/// every span carried by a diagnostic names a file of the compilation (spans are made by the lexers
/// from the file being parsed).
#[verifier::external_body]
pub fn shim_find_file<'a>(files: &'a [SliceFile], span: &Span) -> (r: &'a SliceFile)
    ensures *r == file_of(files@, *span),
{ unimplemented!() }
pub struct OpaqueLookupError { _p: () }
impl Ast {
    /// Ast::find_element::<dyn Entity>(scope) (ast/mod.rs; the lookup itself is C03's unit).
    #[verifier::external_body]
    pub fn find_element<'a, T: ?Sized>(&'a self, identifier: &str) -> (r: core::result::Result<&'a dyn Entity, OpaqueLookupError>)
        ensures r is Ok <==> entity_at(self, identifier@) is Some, r is Ok ==> r->Ok_0 == entity_at(self, identifier@)->0,
    { unimplemented!() }
}
// `T::to_owned()` of the blanket `impl<T: Clone> ToOwned for T` (std): no postcondition assumed.
pub assume_specification<T: Clone>[<T as std::borrow::ToOwned>::to_owned](_0: &T) -> (r: T);

// ---- parsers/mod.rs: one file's preprocessing + parsing (trusted) -----------------------------------
/// ghost: the symbol set parse_files was called with (named by the hint at the call site)
pub uninterp spec fn given_symbols() -> Set<String>;
/// parse_file (preprocessor + LALRPOP parser: outside this technique). PERMISSION (C06): the symbol set a
/// file starts with is exactly the set given to parse_files -- whatever #define/#undef an earlier file ran.
#[verifier::external_body]
pub fn parse_file(file: &mut SliceFile, ast: &mut Ast, diagnostics: &mut Diagnostics, symbols: std::collections::HashSet<String>)
    requires symbols@ == given_symbols(),   /*@cl C06.isolation.same_symbols|permission*/
    ensures all_ok(old(diagnostics).0@) ==> all_ok(final(diagnostics).0@),
{ unimplemented!() }
/// `HashSet::clone` (std): a set with the same elements
pub assume_specification<T: Clone, S: Clone, A: std::alloc::Allocator + Clone>[<std::collections::HashSet<T, S, A> as Clone>::clone](s: &std::collections::HashSet<T, S, A>) -> (r: std::collections::HashSet<T, S, A>)
    ensures r@ == s@;

// ---- validators/mod.rs validate_ast: its callees (trusted; C05 / C04 are about them) ----------------------------
/// cycle_detection::detect_cycles (DFS over the pointer AST: outside this technique, C05): append-only
#[verifier::external_body]
pub fn detect_cycles(ast: &Ast, diagnostics: &mut Diagnostics)
    ensures all_ok(old(diagnostics).0@) ==> all_ok(final(diagnostics).0@),
{ unimplemented!() }
/// identifiers::check_for_redefinitions: append-only
#[verifier::external_body]
pub fn check_for_redefinitions(ast: &Ast, diagnostics: &mut Diagnostics)
    ensures all_ok(old(diagnostics).0@) ==> all_ok(final(diagnostics).0@),
{ unimplemented!() }
impl SliceFile {
    /// visitor.rs SliceFile::visit_with (C20's unit verifies the traversal): here only "may be called"
    #[verifier::external_body]
    pub fn visit_with<V>(&self, visitor: &mut V) { unimplemented!() }
}
