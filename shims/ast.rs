// ---- AST shims (DESIGN.md section 5): slicec's raw-pointer AST and the element internals no ------
// function under contract looks inside. TRUSTED: utils/ptr_util.rs's own unsafe code.

// WeakPtr<T>: a pure function of the pointer value -- `borrow()` returns the element the parser
// stored (`target()`); the AST is immutable after patching, so there is no aliasing reasoning.
#[verifier::external_body]
#[verifier::accept_recursive_types(T)]
pub struct WeakPtr<T: ?Sized> { data: Option<*const T> }

impl<T> WeakPtr<T> {
    pub uninterp spec fn target(&self) -> T;
    #[verifier::external_body]
    pub fn borrow(&self) -> (r: &T)
        ensures *r == self.target(),
    { unimplemented!() }
}

// Element internals that the units treat as opaque values (R9): names kept, contents unknown.
#[verifier::external_body] pub struct Identifier { _p: () }
#[verifier::external_body] pub struct Scope { _p: () }
#[verifier::external_body] pub struct Span { _p: () }
#[verifier::external_body] pub struct Attribute { _p: () }
#[verifier::external_body] pub struct DocComment { _p: () }
#[verifier::external_body] pub struct EnumeratorValue { _p: () }
#[verifier::external_body] pub struct OpaqueContainer { _p: () }
// R9: `dyn Type` (the default pointee of TypeRef) -- this Verus' trait-conflict checker rejects
// `dyn Type: Element`; the pointee is never dereferenced by a function under contract.
#[verifier::external_body] pub struct OpaqueDynType { _p: () }
impl Element for OpaqueDynType {}

// Marker traits standing for grammar::traits::{Element, Type} (their methods are not used here).
pub trait Element {}
pub trait Type: Element {}
impl Element for Interface {}
impl Element for Struct {}
impl Element for Enum {}
impl Element for CustomType {}
impl Element for ResultType {}
impl Element for Sequence {}
impl Element for Dictionary {}
impl Type for Struct {}
impl Type for Enum {}
impl Type for CustomType {}
impl Type for ResultType {}
impl Type for Sequence {}
impl Type for Dictionary {}
