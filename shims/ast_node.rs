// ---- shims for the Node conversion unit (C03: "wrong kind is an error, never a silent binding") ----
#[verifier::external_body] #[verifier::accept_recursive_types(T)] pub struct OwnedPtr<T: ?Sized> { _p: core::marker::PhantomData<T> }
#[verifier::external_body] #[verifier::accept_recursive_types(T)] pub struct WeakPtr<T: ?Sized> { _p: core::marker::PhantomData<T> }
impl<T> OwnedPtr<T> {
    #[verifier::external_body] pub fn borrow(&self) -> (r: &T) { unimplemented!() }
    #[verifier::external_body] pub fn downgrade(&self) -> (r: WeakPtr<T>) { unimplemented!() }
}
// element types: opaque here
#[verifier::external_body] pub struct Module { _p: () }
#[verifier::external_body] pub struct Struct { _p: () }
#[verifier::external_body] pub struct Field { _p: () }
#[verifier::external_body] pub struct Interface { _p: () }
#[verifier::external_body] pub struct Operation { _p: () }
#[verifier::external_body] pub struct Parameter { _p: () }
#[verifier::external_body] pub struct Enum { _p: () }
#[verifier::external_body] pub struct Enumerator { _p: () }
#[verifier::external_body] pub struct CustomType { _p: () }
#[verifier::external_body] pub struct TypeAlias { _p: () }
#[verifier::external_body] pub struct ResultType { _p: () }
#[verifier::external_body] pub struct Sequence { _p: () }
#[verifier::external_body] pub struct Dictionary { _p: () }
#[verifier::external_body] pub struct Primitive { _p: () }
#[verifier::external_body] pub struct Attribute { _p: () }
/// R9: `dyn Type` pointee (see shims/ast.rs)
#[verifier::external_body] pub struct OpaqueDynType { _p: () }

/// R16: `ccase!(lower, x)` (convert_case crate macro): message text only
#[verifier::external_body] pub fn shim_ccase_lower<T>(x: T) -> String { unimplemented!() }
/// R16: `node.to_string()` (Display of the variant name): message text only
#[verifier::external_body] pub fn shim_node_to_string(n: &Node) -> String { unimplemented!() }
/// R16: `downgrade_as!(ptr, dyn Type)` (ptr_util macro: raw-pointer upcast): trusted
#[verifier::external_body] pub fn shim_downgrade_as_type<T>(p: &OwnedPtr<T>) -> WeakPtr<OpaqueDynType> { unimplemented!() }
#[verifier::external_body] pub fn shim_identity<T>(x: T) -> (r: T) ensures r == x { x }
