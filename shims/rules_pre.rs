#[verifier::external_body] pub struct Note { _p: () }
#[verifier::external_type_specification] #[verifier::external_body] pub struct ExIoError(std::io::Error);
