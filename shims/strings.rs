// ---- string shims (assumed std contracts over Seq<char>) ------------------------------------------
/// `str::trim`: uninterpreted "strip leading/trailing whitespace" with the algebra the contracts need.
pub use trim_facts::{spec_trim};
pub mod trim_facts {
    use vstd::prelude::*;
    pub uninterp spec fn spec_trim(s: Seq<char>) -> Seq<char>;
    /// trimming is idempotent and the empty string trims to itself
    pub broadcast axiom fn axiom_trim(s: Seq<char>)
        ensures #[trigger] spec_trim(spec_trim(s)) == spec_trim(s), spec_trim(Seq::<char>::empty()) == Seq::<char>::empty();
}
pub assume_specification<'a>[str::trim](s: &'a str) -> (r: &'a str)
    ensures r@ == spec_trim(s@);

/// R12 region: `pairs.into_iter().map(|(k, v)| (k.trim().to_owned(), v.trim().to_owned())).collect()`
/// (closure with a tuple pattern + collect: no Verus postcondition). Assumed: element-wise trim, order kept.
#[verifier::external_body]
pub fn shim_trim_pairs(pairs: Vec<(String, String)>) -> (r: Vec<(String, String)>)
    ensures r@.len() == pairs@.len(),
            forall|i: int| 0 <= i < r@.len() ==> (#[trigger] r@[i]).0@ == spec_trim(pairs@[i].0@) && r@[i].1@ == spec_trim(pairs@[i].1@),
{
    pairs.into_iter().map(|(key, value)| (key.trim().to_owned(), value.trim().to_owned())).collect()
}
