// ---- shims for the cycle-detection unit (C05) ------------------------------------------------------
// TRUSTED (DESIGN.md section 5): the accessors below stand for macro-generated / iterator-adapter code
// over the raw-pointer AST. Their contracts say only what the parser establishes when it builds the
// ownership lists: `contents()` returns the container's fields in order, every field's `parent()` is
// the container that lists it, an enumerator's parent is the enum that lists it.

#[verifier::external_body] pub struct Diagnostics { _p: () }
#[verifier::external_body] pub struct OpaqueCandidate { _p: () }   // R9: `&'a dyn CycleCandidate<'a>` in a struct field
#[verifier::external_body] pub struct OpaqueReported { _p: () }    // R9: `HashSet<BTreeSet<String>>`

/// grammar::traits::NamedSymbol, the one method this unit calls
pub trait NamedSymbol {
    spec fn sid(&self) -> Seq<char>;
    fn module_scoped_identifier(&self) -> (r: String)
        ensures r@ == self.sid();
}
pub uninterp spec fn struct_sid(s: Struct) -> Seq<char>;
pub uninterp spec fn enum_sid(e: Enum) -> Seq<char>;
impl NamedSymbol for Struct {
    open spec fn sid(&self) -> Seq<char> { struct_sid(*self) }
    #[verifier::external_body] fn module_scoped_identifier(&self) -> (r: String) { unimplemented!() }
}
impl NamedSymbol for Enum {
    open spec fn sid(&self) -> Seq<char> { enum_sid(*self) }
    #[verifier::external_body] fn module_scoped_identifier(&self) -> (r: String) { unimplemented!() }
}

/// the id of the TYPE whose definition lists this member (for a field of an enumerator: the enum)
pub uninterp spec fn member_owner<T>(t: T) -> Seq<char>;

/// grammar::traits::Container<T>
pub trait Container<T> {
    spec fn spec_contents(&self) -> Seq<T>;
    /// the id of the type this container belongs to (a struct: itself; an enumerator: its enum)
    spec fn owner_id(&self) -> Seq<char>;
    fn contents(&self) -> (r: Vec<&T>)
        ensures
            r@.len() == self.spec_contents().len(),
            forall|i: int| 0 <= i < r@.len() ==> *(#[trigger] r@[i]) == self.spec_contents()[i],
            forall|i: int| 0 <= i < r@.len() ==> member_owner(#[trigger] self.spec_contents()[i]) == self.owner_id();
}
pub uninterp spec fn enumerator_owner(e: Enumerator) -> Seq<char>;
impl Container<Field> for Struct {
    open spec fn spec_contents(&self) -> Seq<Field> { self.fields@.map_values(|p: WeakPtr<Field>| p.target()) }
    open spec fn owner_id(&self) -> Seq<char> { struct_sid(*self) }
    #[verifier::external_body] fn contents(&self) -> (r: Vec<&Field>) { unimplemented!() }
}
impl Container<Field> for Enumerator {
    open spec fn spec_contents(&self) -> Seq<Field> {
        match self.fields { Some(fs) => fs@.map_values(|p: WeakPtr<Field>| p.target()), None => Seq::empty() }
    }
    open spec fn owner_id(&self) -> Seq<char> { enumerator_owner(*self) }
    #[verifier::external_body] fn contents(&self) -> (r: Vec<&Field>) { unimplemented!() }
}
impl Enum {
    /// `Enum::enumerators()` (`iter().map(WeakPtr::borrow).collect()`): the enumerators in order; each one's
    /// parent is this enum
    #[verifier::external_body]
    pub fn enumerators(&self) -> (r: Vec<&Enumerator>)
        ensures
            r@.len() == self.enumerators@.len(),
            forall|i: int| 0 <= i < r@.len() ==> *(#[trigger] r@[i]) == self.enumerators@[i].target(),
            forall|i: int| 0 <= i < r@.len() ==> enumerator_owner(#[trigger] self.enumerators@[i].target()) == enum_sid(*self),
    { unimplemented!() }
}
impl Field {
    #[verifier::external_body]
    pub fn data_type(&self) -> (r: &TypeRef)
        ensures *r == self.data_type,
    { unimplemented!() }
}

// `&String == &String` (core's `impl PartialEq<&B> for &A`): vstd specifies it through `PartialEqSpec`, which it
// leaves uninterpreted for String (it specifies `String == String` directly as equality of the views). ASSUMED: the
// two agree -- std's String equality is equality of the contents.
pub mod string_eq_facts {
    use vstd::prelude::*;
    use vstd::std_specs::cmp::*;
    pub broadcast axiom fn axiom_string_obeys_eq()
        ensures #[trigger] <String as PartialEqSpec<String>>::obeys_eq_spec();
    pub broadcast axiom fn axiom_string_eq_is_view_eq(a: String, b: String)
        ensures #[trigger] a.eq_spec(&b) == (a@ == b@);
}

// `dead_ends: HashSet<String>` (R9 + R16): the set of type ids, by their characters. ASSUMED: std's HashSet<String> finds a string by its
// contents (the String Borrow/Hash/Eq agreement assumed wherever a string-keyed table is used).
#[verifier::external_body] pub struct DeadEnds { _p: () }
impl DeadEnds {
    pub uninterp spec fn view(&self) -> Set<Seq<char>>;
}
/// `self.dead_ends.contains(&id)`
#[verifier::external_body]
pub fn shim_dead_contains(d: &DeadEnds, id: &String) -> (r: bool)
    ensures r == d@.contains(id@),
{ unimplemented!() }
/// `self.dead_ends.insert(id);` -- the ghost argument is the condition the code tested: a type may be recorded as a dead end only if
/// no loop was encountered while it was being checked
#[verifier::external_body]
pub fn shim_dead_insert(d: &mut DeadEnds, id: String, no_loop_while_checking: Ghost<bool>)
    requires no_loop_while_checking@,   /*@cl C05.dead_end.only_without_loops|permission*/
    ensures final(d)@ == old(d)@.insert(id@),
{ unimplemented!() }
/// `self.loops_encountered += 1;` ASSUMED not to wrap: a 64-bit count of search steps
#[verifier::external_body]
pub fn shim_count_loop(n: &mut usize)
    ensures *final(n) == *old(n) + 1,
{ unimplemented!() }

// ---- the per-field memo of anonymous types (`checked: &mut Vec<&dyn Type>`) -------------------------------------------------
/// the structs / enums a sequence / dictionary / result NODE mentions. ASSUMED: `cands` of a reference depends only on the node it
/// points to (two references to the same anonymous type have the same nested references)
pub uninterp spec fn node_cands(t: OpaqueDynType) -> Set<Seq<char>>;
/// the node is a sequence, dictionary or result (an anonymous type), not a named definition
pub uninterp spec fn is_anon_node(t: OpaqueDynType) -> bool;
/// `type_ref.definition()`
#[verifier::external_body]
pub fn shim_type_definition<'a>(t: &'a TypeRef) -> (r: &'a OpaqueDynType)
    ensures
        is_anon_node(*r) == (spec_concrete(t) is ResultType || spec_concrete(t) is Sequence || spec_concrete(t) is Dictionary),
        is_anon_node(*r) ==> node_cands(*r) == cands(*t),
{ unimplemented!() }
/// `checked.iter().any(|checked_type| std::ptr::addr_eq(*checked_type, this_type))`: true only if the very same node is in the list
#[verifier::external_body]
pub fn shim_already_checked(checked: &Vec<&OpaqueDynType>, this_type: &OpaqueDynType) -> (r: bool)
    ensures r ==> exists|i: int| 0 <= i < checked@.len() && *(#[trigger] checked@[i]) == *this_type,
{ unimplemented!() }
