// Primitive as an opaque element (units that do not look at which primitive it is)
#[verifier::external_body] pub struct Primitive { _p: () }
impl Element for Primitive {}
impl Type for Primitive {}
