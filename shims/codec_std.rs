// ---- assumed std contracts used by the wire units (DESIGN.md section 5) -------------------------
// R13: to_le_bytes / from_le_bytes. The shim bodies ARE the std calls; the assumed contract is the
// little-endian layout of the bit pattern. Cross-checked on the real encoder/decoder by the
// complete Kani harnesses k_fixed_* (shift/mask oracle, every value of every type).
pub trait ShimLe<const N: usize>: Sized {
    spec fn bits(self) -> nat;
    spec fn from_bits(n: nat) -> Self;
    fn shim_to_le_bytes(self) -> (r: [u8; N])
        ensures r@ == le_bytes(self.bits(), N as nat);
    fn shim_from_le_bytes(b: [u8; N]) -> (r: Self)
        ensures r == Self::from_bits(le_value(b@));
}
impl ShimLe<2> for u16 {
    open spec fn bits(self) -> nat { self as nat }
    open spec fn from_bits(n: nat) -> Self { n as u16 }
    #[verifier::external_body]
    fn shim_to_le_bytes(self) -> (r: [u8; 2]) { self.to_le_bytes() }
    #[verifier::external_body]
    fn shim_from_le_bytes(b: [u8; 2]) -> (r: Self) { Self::from_le_bytes(b) }
}
impl ShimLe<2> for i16 {
    open spec fn bits(self) -> nat { self as u16 as nat }
    open spec fn from_bits(n: nat) -> Self { n as u16 as i16 }
    #[verifier::external_body]
    fn shim_to_le_bytes(self) -> (r: [u8; 2]) { self.to_le_bytes() }
    #[verifier::external_body]
    fn shim_from_le_bytes(b: [u8; 2]) -> (r: Self) { Self::from_le_bytes(b) }
}
impl ShimLe<4> for u32 {
    open spec fn bits(self) -> nat { self as nat }
    open spec fn from_bits(n: nat) -> Self { n as u32 }
    #[verifier::external_body]
    fn shim_to_le_bytes(self) -> (r: [u8; 4]) { self.to_le_bytes() }
    #[verifier::external_body]
    fn shim_from_le_bytes(b: [u8; 4]) -> (r: Self) { Self::from_le_bytes(b) }
}
impl ShimLe<4> for i32 {
    open spec fn bits(self) -> nat { self as u32 as nat }
    open spec fn from_bits(n: nat) -> Self { n as u32 as i32 }
    #[verifier::external_body]
    fn shim_to_le_bytes(self) -> (r: [u8; 4]) { self.to_le_bytes() }
    #[verifier::external_body]
    fn shim_from_le_bytes(b: [u8; 4]) -> (r: Self) { Self::from_le_bytes(b) }
}
impl ShimLe<8> for u64 {
    open spec fn bits(self) -> nat { self as nat }
    open spec fn from_bits(n: nat) -> Self { n as u64 }
    #[verifier::external_body]
    fn shim_to_le_bytes(self) -> (r: [u8; 8]) { self.to_le_bytes() }
    #[verifier::external_body]
    fn shim_from_le_bytes(b: [u8; 8]) -> (r: Self) { Self::from_le_bytes(b) }
}
impl ShimLe<8> for i64 {
    open spec fn bits(self) -> nat { self as u64 as nat }
    open spec fn from_bits(n: nat) -> Self { n as u64 as i64 }
    #[verifier::external_body]
    fn shim_to_le_bytes(self) -> (r: [u8; 8]) { self.to_le_bytes() }
    #[verifier::external_body]
    fn shim_from_le_bytes(b: [u8; 8]) -> (r: Self) { Self::from_le_bytes(b) }
}
impl ShimLe<4> for f32 {
    open spec fn bits(self) -> nat { f32_bits(self) }
    open spec fn from_bits(n: nat) -> Self { f32_from_bits(n) }
    #[verifier::external_body]
    fn shim_to_le_bytes(self) -> (r: [u8; 4]) { self.to_le_bytes() }
    #[verifier::external_body]
    fn shim_from_le_bytes(b: [u8; 4]) -> (r: Self) { Self::from_le_bytes(b) }
}
impl ShimLe<8> for f64 {
    open spec fn bits(self) -> nat { f64_bits(self) }
    open spec fn from_bits(n: nat) -> Self { f64_from_bits(n) }
    #[verifier::external_body]
    fn shim_to_le_bytes(self) -> (r: [u8; 8]) { self.to_le_bytes() }
    #[verifier::external_body]
    fn shim_from_le_bytes(b: [u8; 8]) -> (r: Self) { Self::from_le_bytes(b) }
}

// `impl Into<i64>` / `impl Into<u64>` arguments of encode_varint / encode_varuint: std's lossless
// integer widening (From<i32> for i64 etc.) is value preserving. Assumed; the Kani harnesses call
// the real functions with i64 / i32 / u64 arguments.
pub use widening_facts::{spec_into_i64, spec_into_u64};
pub mod widening_facts {
    use vstd::prelude::*;
    pub uninterp spec fn spec_into_i64<V>(v: V) -> i64;
    pub uninterp spec fn spec_into_u64<V>(v: V) -> u64;
    pub broadcast axiom fn axiom_into_i64_i64(v: i64) ensures #[trigger] spec_into_i64::<i64>(v) == v;
    pub broadcast axiom fn axiom_into_i64_i32(v: i32) ensures #[trigger] spec_into_i64::<i32>(v) == v as i64;
    pub broadcast axiom fn axiom_into_i64_u8(v: u8) ensures #[trigger] spec_into_i64::<u8>(v) == v as i64;
    pub broadcast axiom fn axiom_into_u64_u64(v: u64) ensures #[trigger] spec_into_u64::<u64>(v) == v;
    pub broadcast axiom fn axiom_into_u64_u32(v: u32) ensures #[trigger] spec_into_u64::<u32>(v) == v as u64;
}

// `T::try_from(i64)` / `T::try_from(u64)` in decode_varint / decode_varuint for the integer types
// the crate instantiates them at: range check, never truncation (std's TryFrom for integers).
pub use narrowing_facts::{spec_try_from_int, spec_try_from_nat};
pub mod narrowing_facts {
    use vstd::prelude::*;
    pub uninterp spec fn spec_try_from_int<T>(v: int) -> Option<T>;
    pub uninterp spec fn spec_try_from_nat<T>(v: nat) -> Option<T>;
    pub broadcast axiom fn axiom_try_i32(v: int)
        ensures #[trigger] spec_try_from_int::<i32>(v) == (if i32::MIN <= v <= i32::MAX { Some(v as i32) } else { None });
    pub broadcast axiom fn axiom_try_i64(v: int)
        ensures #[trigger] spec_try_from_int::<i64>(v) == (if i64::MIN <= v <= i64::MAX { Some(v as i64) } else { None });
    pub broadcast axiom fn axiom_try_u32(v: nat)
        ensures #[trigger] spec_try_from_nat::<u32>(v) == (if v <= u32::MAX { Some(v as u32) } else { None });
    pub broadcast axiom fn axiom_try_u64(v: nat)
        ensures #[trigger] spec_try_from_nat::<u64>(v) == (if v <= u64::MAX { Some(v as u64) } else { None });
    // BTreeMap::decode_from leaves the size's type to integer fallback, i.e. decode_varuint::<i32>
    pub broadcast axiom fn axiom_try_nat_i32(v: nat)
        ensures #[trigger] spec_try_from_nat::<i32>(v) == (if v <= i32::MAX { Some(v as i32) } else { None });
    pub broadcast axiom fn axiom_try_usize(v: nat)
        ensures #[trigger] spec_try_from_nat::<usize>(v) == (if v <= usize::MAX { Some(v as usize) } else { None });
}

// ---- Vec / String allocation API used by the decoders (assumed; std) ----------------------------
// Ghost capacity and ghost contents of the spare capacity of a byte vector.
pub use vec_facts::{vec_cap, vec_spare};
pub mod vec_facts {
    use vstd::prelude::*;
    use std::alloc::Allocator;
    pub uninterp spec fn vec_cap<T, A: Allocator>(v: Vec<T, A>) -> nat;
    pub uninterp spec fn vec_spare<T, A: Allocator>(v: Vec<T, A>) -> Seq<T>;
}

// `Vec::new()` (documented: empty, does not allocate => capacity 0). vstd's own spec of Vec::new
// says nothing about capacity, hence this shim (R12 region in String::decode_from).
#[verifier::external_body]
pub fn shim_vec_u8_new() -> (v: Vec<u8>)
    ensures v@.len() == 0, vec_cap(v) == 0,
{
    Vec::new()
}

// `Vec::try_reserve_exact(additional)`: contents unchanged; on success capacity >= len+additional,
// and -- when it had to grow -- EXACTLY len+additional. Exactness is true of std's RawVec but not
// promised by the API docs; String::decode_from relies on it (DESIGN.md 8.6). Listed assumption.
pub assume_specification<T, A: Allocator>[Vec::<T, A>::try_reserve_exact](v: &mut Vec<T, A>, additional: usize) -> (r: core::result::Result<(), TryReserveError>)
    ensures
        final(v)@ == old(v)@,
        r is Ok ==> vec_cap(*final(v)) >= old(v)@.len() + additional,
        r is Ok && vec_cap(*old(v)) < old(v)@.len() + additional ==> vec_cap(*final(v)) == old(v)@.len() + additional,
        r is Ok && vec_cap(*old(v)) >= old(v)@.len() + additional ==> vec_cap(*final(v)) == vec_cap(*old(v)),
        r is Err ==> vec_cap(*final(v)) == vec_cap(*old(v));

// R12 region: `transmute::<&mut [MaybeUninit<u8>], &mut [u8]>(v.spare_capacity_mut())`.
// The returned slice is the spare capacity (length capacity-len); what is written through it is
// remembered as the ghost spare contents.
#[verifier::external_body]
pub fn shim_spare_capacity_bytes(v: &mut Vec<u8>) -> (r: &mut [u8])
    ensures
        r@.len() == vec_cap(*old(v)) - old(v)@.len(),
        final(r)@.len() == r@.len(),
        final(v)@ == old(v)@,
        vec_cap(*final(v)) == vec_cap(*old(v)),
        vec_spare(*final(v)) == final(r)@,
{
    unsafe { core::mem::transmute::<&mut [core::mem::MaybeUninit<u8>], &mut [u8]>(v.spare_capacity_mut()) }
}

// `Vec::set_len(n)` (unsafe): precondition = its documented safety condition (n <= capacity and
// the first n elements initialised -- here: written through the spare slice); effect = the
// vector now views the first n bytes of old contents ++ spare contents.
pub assume_specification<T, A: Allocator>[Vec::<T, A>::set_len](v: &mut Vec<T, A>, new_len: usize)
    requires new_len <= vec_cap(*old(v)), old(v)@.len() <= new_len,
    ensures final(v)@ == (old(v)@ + vec_spare(*old(v))).take(new_len as int),
            vec_cap(*final(v)) == vec_cap(*old(v));

// `String::from_utf8`: Ok exactly for valid UTF-8, and then the string's UTF-8 bytes are the input.
pub assume_specification[String::from_utf8](vec: Vec<u8>) -> (r: core::result::Result<String, FromUtf8Error>)
    ensures r is Ok <==> valid_utf8(vec@),
            r is Ok ==> encode_utf8(r->Ok_0@) == vec@;

// `HashMap::try_reserve`: contents unchanged (assumed; std).
pub assume_specification<K, V, S, A>[std::collections::HashMap::<K, V, S, A>::try_reserve](m: &mut std::collections::HashMap<K, V, S, A>, additional: usize) -> (r: core::result::Result<(), TryReserveError>)
    where A: std::alloc::Allocator, K: std::cmp::Eq + std::hash::Hash, S: std::hash::BuildHasher,
    ensures final(m)@ == old(m)@;
