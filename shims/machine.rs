// ---- machine facts (assumed) ----------------------------------------------------------------------
// A slice's length is a `usize` (Rust language fact; Verus only learns it from a `.len()` call).
pub mod machine_facts {
    use vstd::prelude::*;
    pub broadcast axiom fn axiom_slice_len_fits_usize<T>(s: &[T])
        ensures #[trigger] s@.len() <= usize::MAX;
}

