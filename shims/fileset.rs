// ---- shims for the file-set unit (C17): the OS-facing half is trusted ---------------------------
#[verifier::external_type_specification] #[verifier::external_body] pub struct ExPathBuf(std::path::PathBuf);
#[verifier::external_type_specification] #[verifier::external_body] pub struct ExIoError(std::io::Error);
#[verifier::external_body] pub struct Span { _p: () }
#[verifier::external_body] pub struct Note { _p: () }

/// `PathBuf == PathBuf` (component-wise comparison of canonical paths): an equivalence relation.
pub use path_facts::path_eq;
pub mod path_facts {
    use vstd::prelude::*;
    pub uninterp spec fn path_eq(a: std::path::PathBuf, b: std::path::PathBuf) -> bool;
    pub broadcast axiom fn axiom_path_eq_equivalence(a: std::path::PathBuf, b: std::path::PathBuf, c: std::path::PathBuf)
        ensures path_eq(a, a), #[trigger] path_eq(a, b) == path_eq(b, a), (path_eq(a, b) && #[trigger] path_eq(b, c)) ==> path_eq(a, c);
}
#[verifier::external_body]
pub fn shim_pathbuf_eq(a: &std::path::PathBuf, b: &std::path::PathBuf) -> (r: bool)
    ensures r == path_eq(*a, *b),
{ a == b }

/// `<[T]>::contains` (std): true iff some element compares equal (T's PartialEq) -- assumed.
pub assume_specification<T>[<[T]>::contains](s: &[T], x: &T) -> (r: bool)
    where T: core::cmp::PartialEq,
    ensures T::obeys_eq_spec() ==> (r <==> exists|i: int| 0 <= i < s@.len() && (#[trigger] s@[i]).eq_spec(x));

// ---- resolve_files_from's OS-facing callees (trusted; the property's file-system half) -----------
/// opaque compiled-file record; ghost: the spelling it was created from and its source flag
#[verifier::external_body] pub struct SliceFile { _p: () }
pub uninterp spec fn sf_path(f: SliceFile) -> String;
pub uninterp spec fn sf_is_source(f: SliceFile) -> bool;
impl SliceFile {
    #[verifier::external_body]
    pub fn new(relative_path: String, raw_text: String, is_source: bool) -> (r: SliceFile)
        ensures sf_path(r) == relative_path, sf_is_source(r) == is_source,
    { unimplemented!() }
}
/// existence / extension / directory walk / canonicalize: trusted. What IS pinned: every FilePath it
/// returns carries the flag it was asked for.
pub uninterp spec fn spec_found(paths: Seq<String>, are_source_files: bool) -> Seq<FilePath>;
#[verifier::external_body]
pub fn find_slice_files(paths: &[String], are_source_files: bool, diagnostics: &mut Diagnostics) -> (r: Vec<FilePath>)
    ensures r@ == spec_found(paths@, are_source_files),
            forall|i: int| 0 <= i < r@.len() ==> (#[trigger] r@[i]).is_source == are_source_files,
            final(diagnostics).0@.len() >= old(diagnostics).0@.len(),
{ unimplemented!() }
#[verifier::external_body]
pub fn shim_read_to_string(path: &String) -> (r: core::result::Result<String, std::io::Error>) { unimplemented!() }
#[verifier::external_body]
pub fn shim_vec_extend<T>(v: &mut Vec<T>, other: Vec<T>)
    ensures final(v)@ == old(v)@ + other@,
{ v.extend(other) }
