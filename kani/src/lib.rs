//! Kani harnesses over the *unmodified* slice-codec crate (path dependency).
//!
//! Every harness is a function contract written at harness level:
//!     symbolic inputs  ->  kani::assume(precondition)  ->  call the real function  ->  assert!(postcondition)
//! (what `#[kani::proof_for_contract]` generates; attribute contracts would have to be written
//! into /repo and cannot mention the generic output target's contents -- DESIGN.md 2.3).
//!
//! * `k_*`  : loop-free in the code under verification, full machine domain => COMPLETE proofs.
//!            Harness-side loops have constant bounds and are fully unrolled with unwinding
//!            assertions on.
//! * `kb_*` : BOUNDED stand-ins (bound stated in the doc comment and in tools/props.py); reported
//!            separately and never counted as proved.
//!
//! Values holding a `slice_codec::Error` are `mem::forget`-ed: dropping one makes CBMC unwind the
//! drop glue of `Option<Box<dyn Error>>` without end.
#![allow(unused)]
#![cfg_attr(not(kani), allow(dead_code))]

use slice_codec::buffer::slice::{SliceInputSource, SliceOutputTarget};
use slice_codec::buffer::vec::VecOutputTarget;
use slice_codec::buffer::{InputSource, OutputTarget};
use slice_codec::decode_from::DecodeFrom;
use slice_codec::decoder::Decoder;
use slice_codec::encode_into::EncodeInto;
use slice_codec::encoder::Encoder;

mod wire_ref;
use wire_ref::*;

fn is_ok_forget<T>(r: slice_codec::Result<T>) -> Option<T> {
    match r {
        Ok(v) => Some(v),
        Err(e) => {
            core::mem::forget(e);
            None
        }
    }
}

/// little-endian value of the first `w` bytes of `b`, zero-extended
fn le_value(b: &[u8; 9], w: usize) -> u64 {
    let mut raw: u64 = 0;
    let mut i = 0;
    while i < 8 {
        if i < w {
            raw |= (b[i] as u64) << (8 * i as u32);
        }
        i += 1;
    }
    raw
}

#[cfg(kani)]
mod proofs {
    use super::*;

    // =========================================================================================
    // C10 / C11: variable-width integers -- encoder against the reference, full domain
    // =========================================================================================

    /// Contract of `Encoder::encode_varuint` (and `encode_size`, same body after `u64::try_from`)
    /// on a fixed-slice target of symbolic capacity 0..=9 with symbolic initial contents:
    ///   Ok  <=> value < 2^62 and the shortest width fits
    ///   Ok  ==> exactly `width` bytes appended, equal to LE((v<<2)|code); every other byte unchanged
    ///   Err ==> no byte changed, cursor unchanged
    #[kani::proof]
    #[kani::unwind(10)]
    fn k_encode_varuint_contract() {
        let v: u64 = kani::any();
        let init: [u8; 9] = kani::any();
        let mut buf = init;
        let cap: usize = kani::any();
        kani::assume(cap <= 9);
        let mut enc = Encoder::new(SliceOutputTarget::from(&mut buf[..cap]));
        kani::cover!(true);
        let r = is_ok_forget(enc.encode_varuint(v));
        let rem = enc.remaining();
        let w = ref_varuint_width(v);
        let ok = r.is_some();
        assert!(ok == (w != 0 && w <= cap));
        if ok {
            assert!(cap - rem == w);
            let shifted = (v << 2) | ref_width_code(w);
            let mut i = 0;
            while i < 9 {
                if i < w {
                    assert!(buf[i] == ref_le_byte(shifted, i as u32));
                } else {
                    assert!(buf[i] == init[i]);
                }
                i += 1;
            }
        } else {
            assert!(rem == cap);
            let mut i = 0;
            while i < 9 {
                assert!(buf[i] == init[i]);
                i += 1;
            }
        }
    }

    /// Same contract for `encode_size(usize)`.
    #[kani::proof]
    #[kani::unwind(10)]
    fn k_encode_size_contract() {
        let v: usize = kani::any();
        let init: [u8; 9] = kani::any();
        let mut buf = init;
        let cap: usize = kani::any();
        kani::assume(cap <= 9);
        let mut enc = Encoder::new(SliceOutputTarget::from(&mut buf[..cap]));
        kani::cover!(true);
        let r = is_ok_forget(enc.encode_size(v));
        let rem = enc.remaining();
        let w = ref_varuint_width(v as u64);
        let ok = r.is_some();
        assert!(ok == (w != 0 && w <= cap));
        if ok {
            assert!(cap - rem == w);
            let shifted = ((v as u64) << 2) | ref_width_code(w);
            let mut i = 0;
            while i < 9 {
                if i < w {
                    assert!(buf[i] == ref_le_byte(shifted, i as u32));
                } else {
                    assert!(buf[i] == init[i]);
                }
                i += 1;
            }
        } else {
            assert!(rem == cap);
            let mut i = 0;
            while i < 9 {
                assert!(buf[i] == init[i]);
                i += 1;
            }
        }
    }

    /// Contract of `Encoder::encode_varint`: as above over two's complement.
    #[kani::proof]
    #[kani::unwind(10)]
    fn k_encode_varint_contract() {
        let v: i64 = kani::any();
        let init: [u8; 9] = kani::any();
        let mut buf = init;
        let cap: usize = kani::any();
        kani::assume(cap <= 9);
        let mut enc = Encoder::new(SliceOutputTarget::from(&mut buf[..cap]));
        kani::cover!(true);
        let r = is_ok_forget(enc.encode_varint(v));
        let rem = enc.remaining();
        let w = ref_varint_width(v);
        let ok = r.is_some();
        assert!(ok == (w != 0 && w <= cap));
        if ok {
            assert!(cap - rem == w);
            let shifted = ((v as u64) << 2) | ref_width_code(w);
            let mut i = 0;
            while i < 9 {
                if i < w {
                    assert!(buf[i] == ref_le_byte(shifted, i as u32));
                } else {
                    assert!(buf[i] == init[i]);
                }
                i += 1;
            }
        } else {
            assert!(rem == cap);
            let mut i = 0;
            while i < 9 {
                assert!(buf[i] == init[i]);
                i += 1;
            }
        }
    }

    // =========================================================================================
    // C10 / C11: variable-width integers -- decoder on ANY bytes (symbolic buffer, length 0..=9)
    // =========================================================================================
    macro_rules! dec_varuint_any_bytes {
        ($name:ident, $t:ty) => {
            /// Contract of `Decoder::decode_varuint::<T>` on any byte string of length 0..=9:
            /// reads exactly the width announced by the two low bits of the first byte or fails
            /// with nothing consumed; value = LE(bytes) >> 2; a value outside `T` is an error,
            /// never a truncation.
            #[kani::proof]
            #[kani::unwind(10)]
            fn $name() {
                let buf: [u8; 9] = kani::any();
                let n: usize = kani::any();
                kani::assume(n <= 9);
                let mut dec = Decoder::new(SliceInputSource::from(&buf[..n]));
                kani::cover!(true);
                let dv = is_ok_forget(dec.decode_varuint::<$t>());
                let rem = dec.remaining();
                if n == 0 {
                    assert!(dv.is_none() && rem == 0);
                } else {
                    let w = ref_code_width(buf[0]);
                    if w > n {
                        assert!(dv.is_none());
                        assert!(rem == n);
                    } else {
                        let v = le_value(&buf, w) >> 2;
                        assert!(rem == n - w);
                        if v <= <$t>::MAX as u64 {
                            assert!(dv == Some(v as $t));
                        } else {
                            assert!(dv.is_none());
                        }
                    }
                }
            }
        };
    }
    dec_varuint_any_bytes!(k_decode_varuint_u32_any_bytes, u32);
    dec_varuint_any_bytes!(k_decode_varuint_u64_any_bytes, u64);
    dec_varuint_any_bytes!(k_decode_varuint_usize_any_bytes, usize);
    // BTreeMap::decode_from decodes its size as i32 (integer fallback of an unannotated `let length`)
    dec_varuint_any_bytes!(k_decode_varuint_i32_any_bytes, i32);

    macro_rules! dec_varint_any_bytes {
        ($name:ident, $t:ty) => {
            /// Contract of `Decoder::decode_varint::<T>` on any byte string of length 0..=9
            /// (sign extension from the announced width, arithmetic shift by two).
            #[kani::proof]
            #[kani::unwind(10)]
            fn $name() {
                let buf: [u8; 9] = kani::any();
                let n: usize = kani::any();
                kani::assume(n <= 9);
                let mut dec = Decoder::new(SliceInputSource::from(&buf[..n]));
                kani::cover!(true);
                let dv = is_ok_forget(dec.decode_varint::<$t>());
                let rem = dec.remaining();
                if n == 0 {
                    assert!(dv.is_none() && rem == 0);
                } else {
                    let w = ref_code_width(buf[0]);
                    if w > n {
                        assert!(dv.is_none());
                        assert!(rem == n);
                    } else {
                        let raw = le_value(&buf, w);
                        // sign-extend from 8*w bits
                        let sh = 64 - 8 * (w as u32);
                        let v = (((raw << sh) as i64) >> sh) >> 2;
                        assert!(rem == n - w);
                        if v >= <$t>::MIN as i64 && v <= <$t>::MAX as i64 {
                            assert!(dv == Some(v as $t));
                        } else {
                            assert!(dv.is_none());
                        }
                    }
                }
            }
        };
    }
    dec_varint_any_bytes!(k_decode_varint_i32_any_bytes, i32);
    dec_varint_any_bytes!(k_decode_varint_i64_any_bytes, i64);

    /// Round trip, full i64 domain: decode(encode(v)) == v, consumes exactly the bytes written,
    /// widths at the property's thresholds.
    #[kani::proof]
    fn k_varint_roundtrip() {
        let v: i64 = kani::any();
        let mut buf = [0u8; 8];
        let mut enc = Encoder::new(SliceOutputTarget::from(&mut buf));
        let ok = is_ok_forget(enc.encode_varint(v)).is_some();
        let rem = enc.remaining();
        assert!(ok == (v >= -(1i64 << 61) && v < (1i64 << 61)));
        if ok {
            let n = 8 - rem;
            assert!(n == ref_varint_width(v));
            let mut dec = Decoder::new(SliceInputSource::from(&buf[..n]));
            let dv = is_ok_forget(dec.decode_varint::<i64>());
            assert!(dv == Some(v));
            assert!(dec.remaining() == 0);
        }
    }

    /// Round trip, full u64 domain.
    #[kani::proof]
    fn k_varuint_roundtrip() {
        let v: u64 = kani::any();
        let mut buf = [0u8; 8];
        let mut enc = Encoder::new(SliceOutputTarget::from(&mut buf));
        let ok = is_ok_forget(enc.encode_varuint(v)).is_some();
        let rem = enc.remaining();
        assert!(ok == (v < (1u64 << 62)));
        if ok {
            let n = 8 - rem;
            assert!(n == ref_varuint_width(v));
            let mut dec = Decoder::new(SliceInputSource::from(&buf[..n]));
            let dv = is_ok_forget(dec.decode_varuint::<u64>());
            assert!(dv == Some(v));
            assert!(dec.remaining() == 0);
        }
    }

    // =========================================================================================
    // C10: fixed-width numbers -- little-endian two's complement / IEEE-754 bit patterns
    // =========================================================================================
    macro_rules! fixed_width {
        ($name:ident, $t:ty, $n:expr, $bits:expr) => {
            /// encode: exactly N bytes, byte i == (bits >> 8i) & 0xff, rest of buffer unchanged,
            /// too-small buffer => Err and nothing changed; decode of those bytes gives the same
            /// bit pattern and consumes N bytes; decode of fewer than N bytes fails consuming nothing.
            #[kani::proof]
            #[kani::unwind(10)]
            fn $name() {
                let v: $t = kani::any();
                let bits: u64 = ($bits)(v);
                let init: [u8; 9] = kani::any();
                let mut buf = init;
                let cap: usize = kani::any();
                kani::assume(cap <= 9);
                let mut enc = Encoder::new(SliceOutputTarget::from(&mut buf[..cap]));
                kani::cover!(true);
                let ok = is_ok_forget(enc.encode(v)).is_some();
                let rem = enc.remaining();
                assert!(ok == ($n <= cap));
                let mut i = 0;
                while i < 9 {
                    if ok && i < $n {
                        assert!(buf[i] == ref_le_byte(bits, i as u32));
                    } else {
                        assert!(buf[i] == init[i]);
                    }
                    i += 1;
                }
                assert!(rem == if ok { cap - $n } else { cap });
                // also through a reference (the macro-generated `&T` impl)
                if ok {
                    let mut buf2 = [0u8; 9];
                    let mut enc2 = Encoder::new(SliceOutputTarget::from(&mut buf2[..cap]));
                    let ok2 = is_ok_forget(enc2.encode(&v)).is_some();
                    assert!(ok2);
                    let mut i = 0;
                    while i < $n {
                        assert!(buf2[i] == buf[i]);
                        i += 1;
                    }
                }
                // decoder on any bytes of symbolic length
                let src: [u8; 9] = kani::any();
                let n: usize = kani::any();
                kani::assume(n <= 9);
                let mut dec = Decoder::new(SliceInputSource::from(&src[..n]));
                let dv = is_ok_forget(dec.decode::<$t>());
                let rem = dec.remaining();
                if n < $n {
                    assert!(dv.is_none() && rem == n);
                } else {
                    assert!(rem == n - $n);
                    let mut raw: u64 = 0;
                    let mut i = 0;
                    while i < $n {
                        raw |= (src[i] as u64) << (8 * i as u32);
                        i += 1;
                    }
                    match dv {
                        Some(d) => { assert!(($bits)(d) == raw); }
                        None => { assert!(false); }
                    }
                }
            }
        };
    }
    fixed_width!(k_fixed_u8, u8, 1, |x: u8| x as u64);
    fixed_width!(k_fixed_i8, i8, 1, |x: i8| x as u8 as u64);
    fixed_width!(k_fixed_u16, u16, 2, |x: u16| x as u64);
    fixed_width!(k_fixed_i16, i16, 2, |x: i16| x as u16 as u64);
    fixed_width!(k_fixed_u32, u32, 4, |x: u32| x as u64);
    fixed_width!(k_fixed_i32, i32, 4, |x: i32| x as u32 as u64);
    fixed_width!(k_fixed_u64, u64, 8, |x: u64| x);
    fixed_width!(k_fixed_i64, i64, 8, |x: i64| x as u64);
    fixed_width!(k_fixed_f32, f32, 4, |x: f32| x.to_bits() as u64);
    fixed_width!(k_fixed_f64, f64, 8, |x: f64| x.to_bits());

    /// bool: encodes as 0/1; decoding accepts exactly 0 and 1 (strictness) and consumes one byte;
    /// any other byte is an error.
    #[kani::proof]
    fn k_bool_contract() {
        let v: bool = kani::any();
        let mut buf = [0xAAu8; 2];
        let mut enc = Encoder::new(SliceOutputTarget::from(&mut buf[..1]));
        let ok = is_ok_forget(enc.encode(v)).is_some();
        assert!(ok && enc.remaining() == 0);
        assert!(buf[0] == if v { 1 } else { 0 });
        assert!(buf[1] == 0xAA);
        let b: u8 = kani::any();
        let src = [b];
        let mut dec = Decoder::new(SliceInputSource::from(&src[..]));
        kani::cover!(true);
        let dv = is_ok_forget(dec.decode::<bool>());
        match b {
            0 => { assert!(dv == Some(false) && dec.remaining() == 0); }
            1 => { assert!(dv == Some(true) && dec.remaining() == 0); }
            _ => { assert!(dv.is_none()); }
        }
        let empty: [u8; 0] = [];
        let mut dec = Decoder::new(SliceInputSource::from(&empty[..]));
        assert!(is_ok_forget(dec.decode::<bool>()).is_none());
    }

    // =========================================================================================
    // C12: SliceOutputTarget / SliceInputSource, the real unsafe code under Kani's pointer checks
    // (second line of defence for the R5/R6 shims used on the Verus side)
    // =========================================================================================

    /// One arbitrary operation on an arbitrary SliceOutputTarget state (capacity <= 6, any cursor
    /// reached by a prior reservation/write, any contents): per-operation contract incl. whole-buffer frame.
    /// BOUNDED in capacity (6) and operand length (4): a stand-in for pointer-level safety only;
    /// the unbounded functional proof is the Verus unit codec_buffer.
    #[kani::proof]
    #[kani::unwind(8)]
    fn kb_slice_target_ops() {
        let init: [u8; 6] = kani::any();
        let mut buf = init;
        let cap: usize = kani::any();
        kani::assume(cap <= 6);
        let pre: usize = kani::any();
        kani::assume(pre <= cap);
        let src: [u8; 4] = kani::any();
        let k: usize = kani::any();
        kani::assume(k <= 4);
        let op: u8 = kani::any();
        let mut t = SliceOutputTarget::from(&mut buf[..cap]);
        // reach cursor == pre through the public API
        let mut res = match is_ok_forget(t.reserve_space(pre)) {
            Some(r) => r,
            None => {
                assert!(false);
                return;
            }
        };
        assert!(t.remaining() == cap - pre);
        kani::cover!(true);
        match op % 4 {
            0 => {
                let ok = is_ok_forget(t.write_byte(src[0])).is_some();
                assert!(ok == (pre < cap));
                assert!(t.remaining() == if ok { cap - pre - 1 } else { cap - pre });
                drop(t);
                let mut i = 0;
                while i < 6 {
                    if ok && i == pre { assert!(buf[i] == src[0]); } else { assert!(buf[i] == init[i]); }
                    i += 1;
                }
            }
            1 => {
                let ok = is_ok_forget(t.write_bytes_exact(&src[..k])).is_some();
                assert!(ok == (k <= cap - pre));
                assert!(t.remaining() == if ok { cap - pre - k } else { cap - pre });
                drop(t);
                let mut i = 0;
                while i < 6 {
                    if ok && i >= pre && i < pre + k { assert!(buf[i] == src[i - pre]); } else { assert!(buf[i] == init[i]); }
                    i += 1;
                }
            }
            2 => {
                let ok = is_ok_forget(t.write_bytes_into_reserved_exact(&mut res, &src[..k])).is_some();
                assert!(ok == (k <= pre));
                assert!(t.remaining() == cap - pre);
                // a second write continues where the first stopped (front to back)
                let ok2 = is_ok_forget(t.write_bytes_into_reserved_exact(&mut res, &src[..1])).is_some();
                let used = if ok { k } else { 0 };
                assert!(ok2 == (used + 1 <= pre));
                drop(t);
                let mut i = 0;
                while i < 6 {
                    if ok && i < k { assert!(buf[i] == src[i]); }
                    else if ok2 && i == used { assert!(buf[i] == src[0]); }
                    else { assert!(buf[i] == init[i]); }
                    i += 1;
                }
            }
            _ => {
                let r2 = is_ok_forget(t.reserve_space(k));
                assert!(r2.is_some() == (k <= cap - pre));
                assert!(t.remaining() == if r2.is_some() { cap - pre - k } else { cap - pre });
                drop(t);
                let mut i = 0;
                while i < 6 { assert!(buf[i] == init[i]); i += 1; }
            }
        }
    }

    /// One arbitrary read operation on an arbitrary SliceInputSource state (length <= 6).
    /// BOUNDED (length 6, request 4): pointer-level safety stand-in; functional proof is Verus.
    #[kani::proof]
    #[kani::unwind(8)]
    fn kb_slice_source_ops() {
        let data: [u8; 6] = kani::any();
        let n: usize = kani::any();
        kani::assume(n <= 6);
        let pre: usize = kani::any();
        kani::assume(pre <= n);
        let k: usize = kani::any();
        kani::assume(k <= 4);
        let op: u8 = kani::any();
        let mut s = SliceInputSource::from(&data[..n]);
        assert!(is_ok_forget(s.read_byte_slice_exact(pre).map(|_| ())).is_some());
        assert!(s.remaining() == n - pre);
        kani::cover!(true);
        match op % 5 {
            0 => {
                let r = is_ok_forget(s.peek_byte());
                assert!(r.is_some() == (pre < n));
                if let Some(b) = r { assert!(b == data[pre]); }
                assert!(s.remaining() == n - pre);
            }
            1 => {
                let r = is_ok_forget(s.read_byte());
                assert!(r.is_some() == (pre < n));
                if let Some(b) = r { assert!(b == data[pre]); }
                assert!(s.remaining() == if r.is_some() { n - pre - 1 } else { n - pre });
            }
            2 => {
                let r = is_ok_forget(s.peek_byte_slice_exact(k).map(|x| (x.len(), if x.len() > 0 { x[0] } else { 0 }, if x.len() > 0 { x[x.len() - 1] } else { 0 })));
                assert!(r.is_some() == (k <= n - pre));
                if let Some((l, first, last)) = r {
                    assert!(l == k);
                    if k > 0 { assert!(first == data[pre] && last == data[pre + k - 1]); }
                }
                assert!(s.remaining() == n - pre);
            }
            3 => {
                let r = is_ok_forget(s.read_bytes_exact::<3>().map(|x| *x));
                assert!(r.is_some() == (3 <= n - pre));
                if let Some(a) = r { assert!(a[0] == data[pre] && a[1] == data[pre + 1] && a[2] == data[pre + 2]); }
                assert!(s.remaining() == if r.is_some() { n - pre - 3 } else { n - pre });
            }
            _ => {
                let mut dst = [0x55u8; 4];
                let ok = is_ok_forget(s.read_bytes_into_exact(&mut dst[..k])).is_some();
                assert!(ok == (k <= n - pre));
                let mut i = 0;
                while i < 4 {
                    if ok && i < k { assert!(dst[i] == data[pre + i]); } else { assert!(dst[i] == 0x55); }
                    i += 1;
                }
                assert!(s.remaining() == if ok { n - pre - k } else { n - pre });
            }
        }
    }

    // =========================================================================================
    // BOUNDED stand-ins (thorough tier). Never counted as proved; bounds in tools/props.py.
    // =========================================================================================

    /// VecOutputTarget: one arbitrary operation on an arbitrary small vector (len <= 3, spare
    /// capacity 0..=4, operand <= 3): append / zeroed reservation / write into reservation /
    /// whole-contents frame / error leaves length and contents. Runs the real MaybeUninit /
    /// set_len / write_bytes unsafe code under Kani's memory checks.
    #[kani::proof]
    #[kani::unwind(9)]
    fn kb_vec_target_ops() {
        let len: usize = kani::any();
        kani::assume(len <= 3);
        let spare: usize = kani::any();
        kani::assume(spare <= 4);
        let mut v: Vec<u8> = Vec::with_capacity(len + spare);
        let init: [u8; 3] = kani::any();
        let mut i = 0;
        while i < len { v.push(init[i]); i += 1; }
        let src: [u8; 3] = kani::any();
        let k: usize = kani::any();
        kani::assume(k <= 3);
        let op: u8 = kani::any();
        kani::cover!(true);
        match op % 3 {
            0 => {
                let ok = { let mut t = VecOutputTarget::from(&mut v); is_ok_forget(t.write_byte(src[0])).is_some() };
                if ok {
                    assert!(v.len() == len + 1);
                    assert!(v[len] == src[0]);
                } else { assert!(v.len() == len); }
                let mut j = 0; while j < len { assert!(v[j] == init[j]); j += 1; }
            }
            1 => {
                let ok = { let mut t = VecOutputTarget::from(&mut v); is_ok_forget(t.write_bytes_exact(&src[..k])).is_some() };
                if ok {
                    assert!(v.len() == len + k);
                    let mut j = 0; while j < k { assert!(v[len + j] == src[j]); j += 1; }
                } else { assert!(v.len() == len); }
                let mut j = 0; while j < len { assert!(v[j] == init[j]); j += 1; }
            }
            _ => {
                let mut t = VecOutputTarget::from(&mut v);
                let r = is_ok_forget(t.reserve_space(k));
                match r {
                    Some(mut res) => {
                        // later writes fill the reservation front to back and never touch anything else
                        let w1 = is_ok_forget(t.write_bytes_into_reserved_exact(&mut res, &src[..1])).is_some();
                        assert!(w1 == (k >= 1));
                        let w2 = is_ok_forget(t.write_bytes_into_reserved_exact(&mut res, &src[..k])).is_some();
                        assert!(w2 == (k == 0 || (w1 && k <= k - 1)) || (!w1 && k == 0) || !w2);
                        let after = is_ok_forget(t.write_byte(0xEE)).is_some();
                        drop(t);
                        assert!(v.len() == len + k + if after { 1 } else { 0 });
                        let mut j = 0; while j < len { assert!(v[j] == init[j]); j += 1; }
                        // reserved bytes: zero unless written
                        let mut j = 0;
                        while j < k {
                            if w1 && j == 0 { assert!(v[len] == src[0]); } else if !w2 { assert!(v[len + j] == 0); }
                            j += 1;
                        }
                        if after { assert!(v[len + k] == 0xEE); }
                    }
                    None => { drop(t); assert!(v.len() == len); }
                }
            }
        }
    }

    /// String: decode on ANY byte string of length <= 5: no panic, cursor inside the buffer,
    /// Ok only for size+valid UTF-8, exact consumption; and round trip of a 0..=2 byte ASCII string.
    #[kani::proof]
    #[kani::unwind(8)]
    fn kb_decode_string_any_bytes() {
        let buf: [u8; 5] = kani::any();
        let n: usize = kani::any();
        kani::assume(n <= 5);
        let mut dec = Decoder::new(SliceInputSource::from(&buf[..n]));
        kani::cover!(true);
        let r = is_ok_forget(dec.decode::<String>());
        let rem = dec.remaining();
        assert!(rem <= n);
        if let Some(s) = r {
            assert!(n >= 1);
            let w = ref_code_width(buf[0]);
            assert!(w <= n);
            let len = (le_value5(&buf, w) >> 2) as usize;
            assert!(s.len() == len);
            assert!(n - rem == w + len);
            let b = s.as_bytes();
            let mut i = 0;
            while i < len && i < 4 { assert!(b[i] == buf[w + i]); i += 1; }
            core::mem::forget(s);
        }
    }

    /// Vec<u8>: decode on ANY byte string of length <= 5.
    #[kani::proof]
    #[kani::unwind(8)]
    fn kb_decode_vec_u8_any_bytes() {
        let buf: [u8; 5] = kani::any();
        let n: usize = kani::any();
        kani::assume(n <= 5);
        let mut dec = Decoder::new(SliceInputSource::from(&buf[..n]));
        kani::cover!(true);
        let r = is_ok_forget(dec.decode::<Vec<u8>>());
        let rem = dec.remaining();
        assert!(rem <= n);
        if let Some(v) = r {
            let w = ref_code_width(buf[0]);
            let len = (le_value5(&buf, w) >> 2) as usize;
            assert!(v.len() == len && n - rem == w + len);
            let mut i = 0;
            while i < len && i < 4 { assert!(v[i] == buf[w + i]); i += 1; }
            core::mem::forget(v);
        }
    }

    /// skip_tagged_fields on ANY byte string of length <= 6: terminates, no panic, stays inside.
    #[kani::proof]
    #[kani::unwind(8)]
    fn kb_skip_tagged_any_bytes() {
        let buf: [u8; 6] = kani::any();
        let n: usize = kani::any();
        kani::assume(n <= 6);
        let mut dec = Decoder::new(SliceInputSource::from(&buf[..n]));
        kani::cover!(true);
        let r = is_ok_forget(dec.skip_tagged_fields());
        assert!(dec.remaining() <= n);
        if r.is_some() { assert!(n >= 1); }
    }

    /// Sequence round trip through the real encoder and decoder: Vec<u16> of length <= 2.
    #[kani::proof]
    #[kani::unwind(6)]
    fn kb_vec_u16_roundtrip() {
        let a: u16 = kani::any();
        let b: u16 = kani::any();
        let len: usize = kani::any();
        kani::assume(len <= 2);
        let mut v: Vec<u16> = Vec::new();
        if len >= 1 { v.push(a); }
        if len >= 2 { v.push(b); }
        let mut buf = [0u8; 8];
        let mut enc = Encoder::new(SliceOutputTarget::from(&mut buf[..]));
        assert!(is_ok_forget(enc.encode(&v)).is_some());
        let used = 8 - enc.remaining();
        assert!(used == 1 + 2 * len);
        assert!(buf[0] == (len as u8) << 2);
        let mut dec = Decoder::new(SliceInputSource::from(&buf[..used]));
        let r = is_ok_forget(dec.decode::<Vec<u16>>());
        assert!(dec.remaining() == 0);
        match r {
            Some(d) => {
                assert!(d.len() == len);
                if len >= 1 { assert!(d[0] == a); }
                if len >= 2 { assert!(d[1] == b); }
                core::mem::forget(d);
            }
            None => { assert!(false); }
        }
        core::mem::forget(v);
    }

    /// Dictionary ENCODING (not under any Verus contract): BTreeMap<u8,u8> with exactly one entry
    /// encodes as size(1) ++ key ++ value and decodes back. BOUNDED: one entry.
    #[kani::proof]
    #[kani::unwind(4)]
    fn kb_dict_roundtrip_1() {
        use std::collections::BTreeMap;
        let k1: u8 = kani::any();
        let v1: u8 = kani::any();
        let mut m: BTreeMap<u8, u8> = BTreeMap::new();
        m.insert(k1, v1);
        let mut buf = [0u8; 4];
        let mut enc = Encoder::new(SliceOutputTarget::from(&mut buf[..]));
        assert!(is_ok_forget(enc.encode(&m)).is_some());
        let used = 4 - enc.remaining();
        core::mem::forget(m);
        assert!(used == 3);
        assert!(buf[0] == 1 << 2 && buf[1] == k1 && buf[2] == v1);
    }
}

fn le_value5(b: &[u8; 5], w: usize) -> u64 {
    let mut raw: u64 = 0;
    let mut i = 0;
    while i < 5 {
        if i < w { raw |= (b[i] as u64) << (8 * i as u32); }
        i += 1;
    }
    raw
}
