use vstd::prelude::*;
verus! {

// ---- shim: WeakPtr (external, trusted) ----
#[verifier::external_body]
#[verifier::accept_recursive_types(T)]
pub struct WeakPtr<T: ?Sized> { data: Option<*const T> }

impl<T> WeakPtr<T> {
    pub uninterp spec fn target(&self) -> T;
    #[verifier::external_body]
    pub fn borrow(&self) -> (r: &T)
        ensures *r == self.target()
    { unimplemented!() }
}

// ---- real structs (subset of fields; others opaque) ----
pub struct TypeRef { pub is_optional: bool, pub id: u64 }
pub struct Field { pub data_type: TypeRef, pub id: u64 }
pub struct Struct { pub fields: Vec<WeakPtr<Field>>, pub id: u64 }

pub enum Ev { Struct(u64), Field(u64), TypeRef(u64) }

pub trait Visitor {
    spec fn trace(&self) -> Seq<Ev>;
    fn visit_struct(&mut self, struct_def: &Struct)
        ensures final(self).trace() == old(self).trace().push(Ev::Struct(struct_def.id));
    fn visit_field(&mut self, field: &Field)
        ensures final(self).trace() == old(self).trace().push(Ev::Field(field.id));
    fn visit_type_ref(&mut self, type_ref: &TypeRef)
        ensures final(self).trace() == old(self).trace().push(Ev::TypeRef(type_ref.id));
}

pub open spec fn tr_typeref(t: TypeRef) -> Seq<Ev> { seq![Ev::TypeRef(t.id)] }
pub open spec fn tr_field(f: Field) -> Seq<Ev> { seq![Ev::Field(f.id)] + tr_typeref(f.data_type) }
pub open spec fn tr_fields(fs: Seq<WeakPtr<Field>>, n: int) -> Seq<Ev> decreases n {
    if n <= 0 { Seq::empty() } else { tr_fields(fs, n-1) + tr_field(fs[n-1].target()) }
}
pub open spec fn tr_struct(s: Struct) -> Seq<Ev> { seq![Ev::Struct(s.id)] + tr_fields(s.fields@, s.fields@.len() as int) }

impl TypeRef {
    pub fn visit_with<V: Visitor>(&self, visitor: &mut V)
        ensures final(visitor).trace() == old(visitor).trace() + tr_typeref(*self)
    {
        visitor.visit_type_ref(self);
    }
}
impl Field {
    pub fn visit_with<V: Visitor>(&self, visitor: &mut V)
        ensures final(visitor).trace() == old(visitor).trace() + tr_field(*self)
    {
        visitor.visit_field(self);
        self.data_type.visit_with(visitor);
    }
}
impl Struct {
    pub fn visit_with<V: Visitor>(&self, visitor: &mut V)
        ensures final(visitor).trace() == old(visitor).trace() + tr_struct(*self)
    {
        visitor.visit_struct(self);
        let ghost base = visitor.trace();
        for field in it: &self.fields
            invariant visitor.trace() == base + tr_fields(self.fields@, it.index@ as int)
        {
            field.borrow().visit_with(visitor);
        }
    }
}

} // verus!
fn main() {}
