#![allow(unused)]
use slice_codec::buffer::slice::{SliceInputSource, SliceOutputTarget};
use slice_codec::buffer::vec::VecOutputTarget;
use slice_codec::buffer::{InputSource, OutputTarget};
use slice_codec::decoder::Decoder;
use slice_codec::encoder::Encoder;

#[cfg(kani)]
#[kani::proof]
fn dec_varint_i32_any_bytes() {
    let buf: [u8; 9] = kani::any();
    let n: usize = kani::any();
    kani::assume(n <= 9);
    let mut dec = Decoder::new(SliceInputSource::from(&buf[..n]));
    let d = dec.decode_varint::<i32>();
    let rem = dec.remaining();
    let dv = match &d { Ok(x) => Some(*x), Err(_) => None };
    core::mem::forget(d);
    if n == 0 { assert!(dv.is_none() && rem == 0); }
    else {
        let w = match buf[0] & 3 { 0 => 1usize, 1 => 2, 2 => 4, _ => 8 };
        if w > n { assert!(dv.is_none()); assert!(rem == n); }
        else {
            let mut raw: i64 = 0;
            let mut b8 = [0u8; 8];
            let mut i = 0; while i < 8 { if i < w { b8[i] = buf[i]; } else if buf[w-1] & 0x80 != 0 { b8[i] = 0xff; } i += 1; }
            let v = i64::from_le_bytes(b8) >> 2;
            assert!(rem == n - w);
            if v >= i32::MIN as i64 && v <= i32::MAX as i64 { assert!(dv == Some(v as i32)); } else { assert!(dv.is_none()); }
        }
    }
}

#[cfg(kani)]
#[kani::proof]
#[kani::unwind(14)]
fn vec_write_bytes_exact_op() {
    // arbitrary small state
    let len: usize = kani::any(); kani::assume(len <= 4);
    let spare: usize = kani::any(); kani::assume(spare <= 6);
    let mut v: Vec<u8> = Vec::with_capacity(len + spare);
    let init: [u8; 4] = kani::any();
    let mut i = 0; while i < len { v.push(init[i]); i += 1; }
    let src: [u8; 4] = kani::any();
    let k: usize = kani::any(); kani::assume(k <= 4);
    let r = { let mut t = VecOutputTarget::from(&mut v); t.write_bytes_exact(&src[..k]) };
    let ok = r.is_ok(); core::mem::forget(r);
    if ok {
        assert!(v.len() == len + k);
        let mut j = 0; while j < len { assert!(v[j] == init[j]); j += 1; }
        let mut j = 0; while j < k { assert!(v[len + j] == src[j]); j += 1; }
    } else {
        assert!(v.len() == len);
    }
}
