use vstd::prelude::*;
verus! {

// shim: peekable chars
#[verifier::external_body]
pub struct PeekChars<'a> { it: std::iter::Peekable<std::str::Chars<'a>> }
impl<'a> PeekChars<'a> {
    pub uninterp spec fn view(&self) -> Seq<char>;
    #[verifier::external_body]
    pub fn new(s: &'a str) -> (r: Self) ensures r.view() == s@ { PeekChars { it: s.chars().peekable() } }
    #[verifier::external_body]
    pub fn next(&mut self) -> (r: Option<char>)
        ensures old(self).view().len() == 0 ==> r is None && final(self).view() == old(self).view(),
                old(self).view().len() > 0 ==> r == Some(old(self).view()[0]) && final(self).view() == old(self).view().skip(1)
    { self.it.next() }
    #[verifier::external_body]
    pub fn peek(&mut self) -> (r: Option<&char>)
        ensures final(self).view() == old(self).view(),
                old(self).view().len() == 0 ==> r is None,
                old(self).view().len() > 0 ==> r == Some(&old(self).view()[0])
    { self.it.peek() }
}

#[verifier::external_body]
fn string_push(s: &mut String, c: char)
    ensures final(s)@ == old(s)@.push(c)
{ s.push(c) }

pub struct Plugin { pub path: String, pub args: Vec<(String, String)> }

fn parse(s: &str) -> (r: usize)
{
    let mut plugin_path = String::new();
    let mut plugin_args = Vec::<(String, String)>::new();
    let mut string_buffer = &mut plugin_path;
    let mut char_iter = PeekChars::new(s);
    let mut n: usize = 0;
    while let Some(c) = char_iter.next()
        invariant n + char_iter.view().len() <= s@.len()
        decreases char_iter.view().len()
    {
        match c {
            ',' => {
                if char_iter.peek().is_some() {
                    plugin_args.push((String::new(), String::new()));
                    string_buffer = &mut plugin_args.last_mut().unwrap().0;
                }
            }
            _ => string_push(string_buffer, c),
        }
        n = n + 1;
    }
    n
}

} // verus!
fn main() {}
