use vstd::prelude::*;
verus! {

pub struct Error { pub kind: u8 }
pub type Result<T> = core::result::Result<T, Error>;

pub trait OutputTarget {
    spec fn out(&self) -> Seq<u8>;
    fn write_byte(&mut self, byte: u8) -> (r: Result<()>)
        ensures r.is_ok() ==> final(self).out() == old(self).out().push(byte),
                r.is_err() ==> final(self).out() == old(self).out();
}

pub struct Encoder<O: OutputTarget> {
    pub output: O,
}

pub trait EncodeInto: Sized {
    spec fn enc(self) -> Seq<u8>;
    fn encode_into(self, encoder: &mut Encoder<impl OutputTarget>) -> (r: Result<()>)
        ensures r.is_ok() ==> final(encoder).output.out() == old(encoder).output.out() + self.enc();
}

impl EncodeInto for bool {
    open spec fn enc(self) -> Seq<u8> { seq![if self {1u8} else {0u8}] }
    fn encode_into(self, encoder: &mut Encoder<impl OutputTarget>) -> (r: Result<()>)
    {
        encoder.output.write_byte(self as u8)
    }
}

} // verus!
fn main() {}
