#![allow(unused)]
mod pp;
use pp::*;

#[cfg(kani)]
fn any_char() -> char {
    let k: u8 = kani::any();
    kani::assume(k < 5);
    match k { 0 => 'a', 1 => ' ', 2 => ',', 3 => '=', _ => '\\' }
}

#[cfg(kani)]
#[kani::proof]
#[kani::unwind(8)]
fn pp_no_panic_len3() {
    let n: usize = kani::any();
    kani::assume(n >= 1 && n <= 3);
    let mut s = String::new();
    for i in 0..3 { if i < n { s.push(any_char()); } }
    let r = plugin_parser(&s);
    if let Ok(p) = &r {
        assert!(!p.path.is_empty());
        for a in &p.args { assert!(!a.0.is_empty()); }
    }
    core::mem::forget(r);
}
