use vstd::prelude::*;
verus! {
#[derive(Clone, Copy, PartialEq, Eq)]
pub enum Level { Error, Warning, Allowed }
pub struct D { pub level: Level }
impl D { pub fn level(&self) -> (r: Level) ensures r == self.level { self.level } }

pub open spec fn cnt(s: Seq<D>, l: Level, n: int) -> nat decreases n {
    if n <= 0 { 0 } else { cnt(s, l, n-1) + if s[n-1].level == l { 1nat } else { 0nat } }
}
pub proof fn cnt_le(s: Seq<D>, l: Level, n: int) requires 0 <= n ensures cnt(s,l,n) <= n decreases n { if n > 0 { cnt_le(s,l,n-1); } }

pub fn get_totals(diagnostics: &[D]) -> (r: (usize, usize))
    ensures r.0 == cnt(diagnostics@, Level::Warning, diagnostics@.len() as int),
            r.1 == cnt(diagnostics@, Level::Error, diagnostics@.len() as int),
{
    let (mut total_warnings, mut total_errors) = (0, 0);

    for diagnostic in it: diagnostics
        invariant total_warnings == cnt(diagnostics@, Level::Warning, it.index@ as int),
                  total_errors == cnt(diagnostics@, Level::Error, it.index@ as int),
                  it.index@ <= diagnostics@.len(),
    {
        proof { cnt_le(diagnostics@, Level::Warning, it.index@ as int); cnt_le(diagnostics@, Level::Error, it.index@ as int); }
        match diagnostic.level() {
            Level::Error => total_errors += 1,
            Level::Warning => total_warnings += 1,
            Level::Allowed => {}
        }
    }

    (total_warnings, total_errors)
}

}
fn main() {}
