use vstd::prelude::*;
verus! {
pub struct Error { pub k: u8 }
pub type Result<T> = core::result::Result<T, Error>;

pub trait InputSource {
    spec fn rest(&self) -> Seq<u8>;
    fn remaining(&self) -> (r: usize) ensures r == self.rest().len();
    fn read_bytes_into_exact(&mut self, dest: &mut [u8]) -> (r: Result<()>)
        ensures r is Ok ==> old(self).rest().len() >= old(dest)@.len()
                  && final(dest)@ == old(self).rest().subrange(0, old(dest)@.len() as int)
                  && final(self).rest() == old(self).rest().skip(old(dest)@.len() as int),
                final(dest)@.len() == old(dest)@.len();
}
pub struct Decoder<I: InputSource> { pub input: I }

// std shims
#[verifier::external_body]
fn vec_try_reserve_exact(v: &mut Vec<u8>, n: usize) -> (r: Result<()>)
    requires old(v)@.len() == 0
    ensures final(v)@.len() == 0, r is Ok ==> spare(*final(v)) == n
{ unimplemented!() }
pub uninterp spec fn spare(v: Vec<u8>) -> nat;

#[verifier::external_body]
fn vec_fill_spare<I2: InputSource>(v: &mut Vec<u8>, decoder: &mut Decoder<I2>, length: usize) -> (r: Result<()>)
    requires old(v)@.len() == 0, spare(*old(v)) == length
    ensures r is Ok ==> final(v)@ == old(decoder).input.rest().subrange(0, length as int)
              && final(decoder).input.rest() == old(decoder).input.rest().skip(length as int)
              && old(decoder).input.rest().len() >= length
{ unimplemented!() }

#[verifier::external_body]
fn string_from_utf8(v: Vec<u8>) -> (r: Result<String>)
    ensures r is Ok <==> is_utf8(v@), r matches Ok(s) ==> utf8(s@) == v@
{ unimplemented!() }
pub uninterp spec fn is_utf8(b: Seq<u8>) -> bool;
pub uninterp spec fn utf8(s: Seq<char>) -> Seq<u8>;

#[verifier::external_body]
fn decode_size<I2: InputSource>(decoder: &mut Decoder<I2>) -> (r: Result<usize>)
    ensures r matches Ok(n) ==> size_dec(old(decoder).input.rest()) == Some((n, (old(decoder).input.rest().len() - final(decoder).input.rest().len()) as nat))
       && final(decoder).input.rest() == old(decoder).input.rest().skip(old(decoder).input.rest().len() - final(decoder).input.rest().len())
{ unimplemented!() }
pub uninterp spec fn size_dec(b: Seq<u8>) -> Option<(usize, nat)>;

fn decode_string<I2: InputSource>(decoder: &mut Decoder<I2>) -> (r: Result<String>)
    ensures r matches Ok(s) ==> ({
        let b = old(decoder).input.rest();
        &&& size_dec(b) is Some
        &&& { let (n, k) = size_dec(b).unwrap();
              b.len() >= k + n && utf8(s@) == b.subrange(k as int, k + n) && final(decoder).input.rest() == b.skip(k + n) }
    })
{
    let length = decode_size(decoder)?;
    let mut vector = Vec::new();
    vec_try_reserve_exact(&mut vector, length)?;
    vec_fill_spare(&mut vector, decoder, length)?;
    let string = string_from_utf8(vector)?;
    Ok(string)
}
}
fn main() {}
