use vstd::prelude::*;
use std::collections::{HashMap, BTreeMap};
verus! {
broadcast use vstd::std_specs::hash::group_hash_axioms;
pub fn f(m: &HashMap<u8, u8>) -> (r: usize)
{
    let mut n: usize = 0;
    for (key, value) in m {
        if n < 100 { n = n + 1; }
    }
    n
}
pub fn g(m: &BTreeMap<u8, u8>) -> (r: usize)
{
    let mut n: usize = 0;
    for (key, value) in m {
        if n < 100 { n = n + 1; }
    }
    n
}
pub fn h(length: usize) -> (r: HashMap<u8,u8>)
{
    let mut map = HashMap::new();
    for _ in 0..length {
        if let Some(_duplicate) = map.insert(1u8, 2u8) {
            todo!();
        }
    }
    map
}
}
fn main() {}
