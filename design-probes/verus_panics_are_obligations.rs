use vstd::prelude::*;
verus! {
pub fn a(s: &str) -> u8 {
    assert!(!s.is_empty());
    1
}
pub fn b(x: u8) -> u8 {
    if x > 3 { todo!(); }
    x
}
pub fn c(x: u8) -> u8 {
    match x { 0 => 1, _ => panic!("boom") }
}
pub fn d(x: Option<u8>) -> u8 { x.unwrap() }
pub fn e(x: u8) -> u8 { match x & 3 { 0 => 1, 1 => 2, 2 => 3, 3 => 4, _ => unreachable!() } }
}
fn main() {}
