use vstd::prelude::*;
verus! {

pub struct Error { pub kind: u8 }
pub type Result<T> = core::result::Result<T, Error>;

pub trait OutputTarget {
    spec fn out(&self) -> Seq<u8>;
    fn write_byte(&mut self, byte: u8) -> (r: Result<()>)
        ensures r.is_ok() ==> final(self).out() == old(self).out().push(byte);
}

pub struct Encoder<O: OutputTarget> {
    pub output: O,
}

pub trait EncodeInto: Sized {
    spec fn enc(self) -> Seq<u8>;
    fn encode_into<O2: OutputTarget>(self, encoder: &mut Encoder<O2>) -> (r: Result<()>)
        ensures r.is_ok() ==> final(encoder).output.out() == old(encoder).output.out() + self.enc();
}

impl<O: OutputTarget> Encoder<O> {
    pub fn encode<T: EncodeInto>(&mut self, value: T) -> (r: Result<()>)
        ensures r.is_ok() ==> final(self).output.out() == old(self).output.out() + value.enc()
    {
        value.encode_into(self)
    }
    #[verifier::external_body]
    pub fn encode_size(&mut self, value: usize) -> (r: Result<()>)
        ensures r.is_ok() ==> final(self).output.out() == old(self).output.out() + size_enc(value)
    { unimplemented!() }
}

pub uninterp spec fn size_enc(v: usize) -> Seq<u8>;

impl EncodeInto for u8 {
    open spec fn enc(self) -> Seq<u8> { seq![self] }
    fn encode_into<O2: OutputTarget>(self, encoder: &mut Encoder<O2>) -> (r: Result<()>)
    {
        encoder.output.write_byte(self)
    }
}
impl EncodeInto for &u8 {
    open spec fn enc(self) -> Seq<u8> { seq![*self] }
    fn encode_into<O2: OutputTarget>(self, encoder: &mut Encoder<O2>) -> (r: Result<()>)
    {
        (*self).encode_into(encoder)
    }
}

pub open spec fn enc_all<'a, T: 'a>(s: Seq<T>, n: int) -> Seq<u8> where &'a T: EncodeInto
    decreases n
{
    if n <= 0 { Seq::empty() } else { enc_all::<T>(s, n-1) + (&s[n-1]).enc() }
}

impl<'a, T> EncodeInto for &'a [T]
where
    &'a T: EncodeInto,
{
    open spec fn enc(self) -> Seq<u8> { size_enc(self@.len() as usize) + enc_all::<T>(self@, self@.len() as int) }
    fn encode_into<O2: OutputTarget>(self, encoder: &mut Encoder<O2>) -> (r: Result<()>)
    {
        encoder.encode_size(self.len())?;
        let ghost base = encoder.output.out();
        for element in it: self
            invariant encoder.output.out() == base + enc_all::<T>(self@, it.index@ as int),
        {
            encoder.encode(element)?;
        }
        Ok(())
    }
}

} // verus!
fn main() {}
