// Probe run during the design phase (harness crate with `slice-codec = { path = "/repo/slice-codec" }`,
// `cargo kani --harness varint_roundtrip`): VERIFICATION SUCCESSFUL, 580 checks, 25 s, full i64 domain, loop-free.
// NOTE: results holding a slice_codec::Error must be mem::forget-ed: dropping Error recurses through
// Option<Box<dyn Error>> and CBMC unwinds the drop glue forever (10 min lost on the first attempt).
use slice_codec::buffer::slice::{SliceInputSource, SliceOutputTarget};
use slice_codec::buffer::{InputSource, OutputTarget};
use slice_codec::decoder::Decoder;
use slice_codec::encoder::Encoder;

#[cfg(kani)]
#[kani::proof]
fn varint_roundtrip() {
    let v: i64 = kani::any();
    let mut buf = [0u8; 8];
    let mut enc = Encoder::new(SliceOutputTarget::from(&mut buf));
    let r = enc.encode_varint(v);
    let rem = enc.remaining();
    let in_range = v >= -(1i64 << 61) && v < (1i64 << 61);
    let ok = r.is_ok();
    assert!(ok == in_range);
    core::mem::forget(r);
    if ok {
        let n = 8 - rem;
        let expect_n = if v >= -32 && v < 32 { 1 } else if v >= -8192 && v < 8192 { 2 }
                       else if v >= -(1 << 29) && v < (1 << 29) { 4 } else { 8 };
        assert!(n == expect_n);
        let mut dec = Decoder::new(SliceInputSource::from(&buf[..n]));
        let d: Result<i64, _> = dec.decode_varint::<i64>();
        let dv = match &d { Ok(x) => Some(*x), Err(_) => None };
        core::mem::forget(d);
        assert!(dv == Some(v));
        assert!(dec.remaining() == 0);
    }
}
