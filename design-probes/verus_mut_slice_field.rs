use vstd::prelude::*;
verus! {

pub enum ErrorKind {
    UnexpectedEob { requested: usize, remaining: usize },
    Other,
}
pub struct Error { pub kind: ErrorKind }
pub type Result<T> = core::result::Result<T, Error>;

pub struct SliceOutputTarget<'a> {
    buffer: &'a mut [u8],
    pos: usize,
}

impl<'a> SliceOutputTarget<'a> {
    pub closed spec fn bytes(&self) -> Seq<u8> { (*self.buffer)@ }
    pub closed spec fn wf(&self) -> bool { self.pos <= self.bytes().len() }
    pub closed spec fn written(&self) -> Seq<u8> { self.bytes().subrange(0, self.pos as int) }

    fn remaining(&self) -> (r: usize)
        requires self.wf()
        ensures r == self.bytes().len() - self.pos
    {
        self.buffer.len() - self.pos
    }

    fn write_byte(&mut self, byte: u8) -> (r: Result<()>)
        requires old(self).wf()
        ensures final(self).wf(),
          final(self).bytes().len() == old(self).bytes().len(),
          r.is_ok() ==> final(self).written() == old(self).written().push(byte),
          r.is_err() ==> final(self).bytes() == old(self).bytes() && final(self).pos == old(self).pos,
    {
        if self.remaining() < 1 { return Err(Error{kind: ErrorKind::Other}); }
        unsafe {
            self.buffer[self.pos] = byte;
            self.pos += 1;
            Ok(())
        }
    }
}

} // verus!
fn main() {}
