use vstd::prelude::*;
use std::collections::HashSet;
use vstd::std_specs::hash::*;
verus! {

broadcast use vstd::std_specs::hash::group_hash_axioms;
pub open spec fn sv(h: Set<String>) -> Set<Seq<char>> { h.map(|s: String| s@) }

// assumed: std String/str Borrow+Hash+Eq agreement
pub axiom fn axiom_str_key(h: Set<String>, k: &str)
    ensures obeys_key_model::<String>(), set_contains_borrowed_key::<String, str>(h, k) <==> sv(h).contains(k@);

pub struct SourceBlock<'input> {
    pub content: &'input str,
    pub start: usize,
}

pub enum Node<'a> {
    SourceBlock(SourceBlock<'a>),
    DefineDirective(&'a str),
    UndefineDirective(&'a str),
    Conditional(Conditional<'a>),
}

pub struct Conditional<'a> {
    pub if_section: (Expression<'a>, Vec<Node<'a>>),
    pub elif_sections: Vec<(Expression<'a>, Vec<Node<'a>>)>,
    pub else_section: Option<Vec<Node<'a>>>,
}

pub enum Expression<'a> {
    Term(Term<'a>),
    Not(Term<'a>),
    And(Box<Expression<'a>>, Term<'a>),
    Or(Box<Expression<'a>>, Term<'a>),
}

pub enum Term<'a> {
    Symbol(&'a str),
    Expression(Box<Expression<'a>>),
}

pub open spec fn expr_val(e: Expression, syms: Set<Seq<char>>) -> bool
    decreases e
{
    match e {
        Expression::Term(t) => term_val(t, syms),
        Expression::Not(t) => !term_val(t, syms),
        Expression::And(e2, t) => expr_val(*e2, syms) && term_val(t, syms),
        Expression::Or(e2, t) => expr_val(*e2, syms) || term_val(t, syms),
    }
}
pub open spec fn term_val(t: Term, syms: Set<Seq<char>>) -> bool
    decreases t
{
    match t {
        Term::Symbol(s) => syms.contains(s@),
        Term::Expression(e) => expr_val(*e, syms),
    }
}

impl Expression<'_> {
    pub fn evaluate(self, defined_symbols: &HashSet<String>) -> (r: bool)
        ensures r == expr_val(self, sv(defined_symbols@))
        decreases self
    {
        match self {
            Self::Term(term) => term.evaluate(defined_symbols),
            Self::Not(term) => !term.evaluate(defined_symbols),
            Self::And(expression, term) => expression.evaluate(defined_symbols) && term.evaluate(defined_symbols),
            Self::Or(expression, term) => expression.evaluate(defined_symbols) || term.evaluate(defined_symbols),
        }
    }
}

impl Term<'_> {
    pub fn evaluate(self, defined_symbols: &HashSet<String>) -> (r: bool)
        ensures r == term_val(self, sv(defined_symbols@))
        decreases self
    {
        match self {
            Self::Symbol(symbol) => { proof { axiom_str_key(defined_symbols@, symbol); } defined_symbols.contains(symbol) },
            Self::Expression(expression) => expression.evaluate(defined_symbols),
        }
    }
}


pub struct Diagnostics { pub n: usize }
pub struct Preprocessor<'a> {
    pub file_name: &'a str,
    pub defined_symbols: &'a mut HashSet<String>,
    pub diagnostics: &'a mut Diagnostics,
}

pub open spec fn select_elif<'a>(elifs: Seq<(Expression<'a>, Vec<Node<'a>>)>, i: int, els: Option<Vec<Node<'a>>>, syms: Set<Seq<char>>) -> Seq<Node<'a>>
    decreases elifs.len() - i
{
    if i < 0 || i >= elifs.len() { match els { Some(v) => v@, None => Seq::empty() } }
    else if expr_val(elifs[i].0, syms) { elifs[i].1@ } else { select_elif(elifs, i + 1, els, syms) }
}
pub open spec fn select<'a>(c: Conditional<'a>, syms: Set<Seq<char>>) -> Seq<Node<'a>> {
    if expr_val(c.if_section.0, syms) { c.if_section.1@ } else { select_elif(c.elif_sections@, 0, c.else_section, syms) }
}
impl<'a> Conditional<'a> {
    pub fn evaluate(self, defined_symbols: &HashSet<String>) -> (r: Vec<Node<'a>>)
        ensures r@ == select(self, sv(defined_symbols@))
    {
        let (if_condition, if_block) = self.if_section;
        if if_condition.evaluate(defined_symbols) {
            return if_block;
        }

        for (elif_condition, elif_block) in it: self.elif_sections
            invariant select(self, sv(defined_symbols@)) == select_elif(self.elif_sections@, it.index@ as int, self.else_section, sv(defined_symbols@)),
        {
            if elif_condition.evaluate(defined_symbols) {
                return elif_block;
            }
        }

        self.else_section.unwrap_or_default()
    }
}

#[verifier::external_body]
pub fn process_nodes<'a>(
    nodes: Vec<Node<'a>>,
    source_blocks: &mut Vec<SourceBlock<'a>>,
    preprocessor: &mut Preprocessor<'_>,
)
{
    for node in nodes {
        match node {
            Node::SourceBlock(source_block) => source_blocks.push(source_block),
            Node::DefineDirective(symbol) => {
                preprocessor.defined_symbols.insert(symbol.to_owned());
            }
            Node::UndefineDirective(symbol) => {
                preprocessor.defined_symbols.remove(symbol);
            }
            Node::Conditional(conditional) => {
                let conditional_nodes = conditional.evaluate(preprocessor.defined_symbols);
                process_nodes(conditional_nodes, source_blocks, preprocessor);
            }
        }
    }
}
} // verus!
fn main() {}
