use vstd::prelude::*;
use core::ops::{Deref, DerefMut};
verus! {

pub struct Error { pub kind: u8 }
pub type Result<T> = core::result::Result<T, Error>;

pub trait OutputTarget {
    spec fn out(&self) -> Seq<u8>;
    fn write_byte(&mut self, byte: u8) -> (r: Result<()>)
        ensures r.is_ok() ==> final(self).out() == old(self).out().push(byte);
}

pub struct Encoder<O: OutputTarget> {
    pub output: O,
}
impl<O: OutputTarget> Deref for Encoder<O> {
    type Target = O;
    fn deref(&self) -> (r: &Self::Target) ensures *r == self.output {
        &self.output
    }
}
impl<O: OutputTarget> DerefMut for Encoder<O> {
    fn deref_mut(&mut self) -> (r: &mut Self::Target)
        ensures *r == old(self).output, final(self).output == *final(r),
    {
        &mut self.output
    }
}

fn f<O2: OutputTarget>(encoder: &mut Encoder<O2>, b: u8) -> (r: Result<()>)
    ensures r.is_ok() ==> final(encoder).output.out() == old(encoder).output.out().push(b)
{
    encoder.write_byte(b)
}

} // verus!
fn main() {}
